import re, sys
p = sys.argv[1]
s = open(p).read()
m = re.search(r'^version\s*=\s*"(\d+)\.(\d+)\.(\d+)"', s, re.M)
if not m:
    sys.exit(1)
s = s[:m.start()] + 'version = "%s.%s.%d"' % (m.group(1), m.group(2), int(m.group(3)) + 1) + s[m.end():]
open(p, 'w').write(s)

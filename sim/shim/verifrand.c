/* A seam for the one source of randomness the code under test (and the Rust standard library on its
 * behalf) draws from: getrandom(2). Loaded with LD_PRELOAD into simulated process starts only.
 * Every thread gets a stream of its own derived from VERIF_RANDOM_SEED and the order in which threads
 * first ask (the opening thread asks first, before any other thread exists), so that the iteration
 * order of randomly seeded hash maps on that thread is a function of the seed. Both the libc function
 * and the raw system call made through syscall(3) are answered. */
#define _GNU_SOURCE
#include <dlfcn.h>
#include <stdarg.h>
#include <stdint.h>
#include <stdlib.h>
#include <string.h>
#include <sys/syscall.h>
#include <sys/time.h>
#include <sys/types.h>
#include <time.h>

static uint64_t seed0;
static int seeded = 0;
static int ordinal = 0;
static __thread uint64_t state;
static __thread int mine = 0;

static uint64_t mix(uint64_t z) {
  z = (z ^ (z >> 30)) * 0xbf58476d1ce4e5b9ULL;
  z = (z ^ (z >> 27)) * 0x94d049bb133111ebULL;
  return z ^ (z >> 31);
}

static void fill(void *buf, size_t len) {
  if (!__atomic_load_n(&seeded, __ATOMIC_ACQUIRE)) {
    const char *e = getenv("VERIF_RANDOM_SEED");
    seed0 = e ? strtoull(e, 0, 10) : 0;
    __atomic_store_n(&seeded, 1, __ATOMIC_RELEASE);
  }
  if (!mine) {
    int o = __atomic_fetch_add(&ordinal, 1, __ATOMIC_SEQ_CST);
    state = mix(seed0 + 0x9e3779b97f4a7c15ULL * (uint64_t)(o + 1));
    mine = 1;
  }
  unsigned char *p = buf;
  size_t i = 0;
  while (i < len) {
    state += 0x9e3779b97f4a7c15ULL;
    uint64_t v = mix(state);
    size_t n = len - i < 8 ? len - i : 8;
    memcpy(p + i, &v, n);
    i += n;
  }
}

ssize_t getrandom(void *buf, size_t len, unsigned int flags) {
  (void)flags;
  fill(buf, len);
  return (ssize_t)len;
}

long syscall(long number, ...) {
  static long (*real)(long, ...) = 0;
  va_list ap;
  va_start(ap, number);
  long a = va_arg(ap, long), b = va_arg(ap, long), c = va_arg(ap, long), d = va_arg(ap, long), e = va_arg(ap, long), f = va_arg(ap, long);
  va_end(ap);
  if (number == SYS_getrandom) {
    fill((void *)a, (size_t)b);
    return b;
  }
  if (!real) {
    real = (long (*)(long, ...))dlsym(RTLD_NEXT, "syscall");
  }
  return real(number, a, b, c, d, e, f);
}

/* The wall clock seam: CLOCK_REALTIME (and time(), gettimeofday()) as seen by the simulated process is
 * the real one plus VERIF_CLOCK_OFFSET seconds - a clock that jumps between process starts and that
 * disagrees with the time stamps the file system puts on files. Monotonic clocks are left alone. */
static long long clock_offset(void) {
  static int have = 0;
  static long long off = 0;
  if (!have) {
    const char *e = getenv("VERIF_CLOCK_OFFSET");
    off = e ? strtoll(e, 0, 10) : 0;
    have = 1;
  }
  return off;
}

/* Time that the simulator lets pass in one step (seconds, all clocks): the simulated process calls
 * verif_clock_advance() on itself to fast-forward idle time ("the handle is left alone for a minute").
 * It moves what the *program* reads through clock_gettime (Instant, SystemTime); timeouts the kernel
 * measures (condition variables, sleeps) are unaffected. */
static long long advanced = 0;
void verif_clock_advance(long long seconds) { __atomic_fetch_add(&advanced, seconds, __ATOMIC_SEQ_CST); }

int clock_gettime(clockid_t id, struct timespec *ts) {
  static int (*real)(clockid_t, struct timespec *) = 0;
  if (!real) {
    real = (int (*)(clockid_t, struct timespec *))dlsym(RTLD_NEXT, "clock_gettime");
  }
  int rc = real(id, ts);
  if (rc == 0 && ts) {
    long long adv = __atomic_load_n(&advanced, __ATOMIC_SEQ_CST);
    if (id == CLOCK_REALTIME || id == CLOCK_REALTIME_COARSE) {
      ts->tv_sec += clock_offset() + adv;
    } else if (id == CLOCK_MONOTONIC || id == CLOCK_MONOTONIC_COARSE || id == CLOCK_MONOTONIC_RAW || id == CLOCK_BOOTTIME) {
      ts->tv_sec += adv;
    }
  }
  return rc;
}

time_t time(time_t *t) {
  struct timespec ts;
  clock_gettime(CLOCK_REALTIME, &ts);
  if (t) {
    *t = ts.tv_sec;
  }
  return ts.tv_sec;
}

int gettimeofday(struct timeval *tv, void *tz) {
  (void)tz;
  struct timespec ts;
  clock_gettime(CLOCK_REALTIME, &ts);
  if (tv) {
    tv->tv_sec = ts.tv_sec;
    tv->tv_usec = ts.tv_nsec / 1000;
  }
  return 0;
}

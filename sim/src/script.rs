//! Types shared by `simnode` (one simulated process start) and `simctl` (the simulator):
//! session scripts, faults, worker plans and the event log.

use serde::{Deserialize, Serialize};

/// How the indexing workers of one index build are to be scheduled.
///
/// The plan is abstract so that it stays meaningful whatever number of workers `N` the code under
/// test creates: the first `N` documents necessarily go to `N` distinct (fresh, indistinguishable)
/// workers; afterwards `bursts` is cycled, `(w, len)` meaning "the next `len` documents go to worker
/// `w % N`". `release` gives the order in which the parked workers are released before the commit.
#[derive(Serialize, Deserialize, Clone, Debug, PartialEq, Eq, Default)]
pub struct Plan {
    #[serde(default)]
    pub bursts: Vec<(u8, u16)>,
    #[serde(default)]
    pub release: Vec<u8>,
    /// When the code under test feeds the index writer from several *producer* threads (threads
    /// other than the one that opened the database reach the document-feeding hook points), the
    /// simulator lets exactly one of them run at a time: `(c, len)` cycled, meaning "of the producers
    /// parked before their next document, sorted by what they were first seen doing, number
    /// `c % parked` feeds its next `len` documents". Empty = each producer in turn runs to its end.
    #[serde(default, skip_serializing_if = "Vec::is_empty")]
    pub producers: Vec<(u8, u16)>,
}

/// A fault injected into one process start.
#[derive(Serialize, Deserialize, Clone, Debug, PartialEq, Eq)]
#[serde(tag = "kind", rename_all = "snake_case")]
pub enum Fault {
    /// SIGKILL to self at the k-th hit (0-based) of the hook point.
    Kill { point: String, k: usize },
    /// The hook returns an `io::Error` at the k-th hit; the real error path runs.
    /// `interrupted` selects `ErrorKind::Interrupted` (which `write_all` retries) instead of `Other`.
    Fail { point: String, k: usize, #[serde(default)] interrupted: bool },
    /// Like `Fail`, with a particular kind of `io::Error` (code that treats some kinds specially -
    /// "permission denied: fall back", "not found: ignore" - only shows under those):
    /// permission_denied | not_found | already_exists | would_block | invalid_data | unexpected_eof |
    /// out_of_memory | timed_out | write_zero | unsupported
    FailKind { point: String, k: usize, error: String },
    /// Every write to the metadata file takes at most `max` bytes (short writes).
    ShortWrites { max: usize },
    /// Injected from outside with ptrace (`strace -e inject=`): at the `when`-th call (1-based, counted
    /// per thread) of system call `call`, either SIGKILL the process (`errno` = None) or make the call
    /// fail with `errno` (e.g. "ENOSPC", "EIO"). Reaches crash points inside tantivy that no
    /// repository-level hook can.
    Syscall { call: String, when: usize, #[serde(default)] errno: Option<String> },
}

#[derive(Serialize, Deserialize, Clone, Copy, Debug, PartialEq, Eq)]
#[serde(rename_all = "snake_case")]
pub enum Mode {
    Mem,
    Disk,
}

#[derive(Serialize, Deserialize, Clone, Copy, Debug, PartialEq, Eq)]
#[serde(rename_all = "snake_case")]
pub enum Perms {
    Identity,
    /// identity + reversal
    Reverse,
    /// every permutation of the words
    All,
}

/// One action inside a C18 interleaving script.
#[derive(Serialize, Deserialize, Clone, Copy, Debug, PartialEq, Eq)]
#[serde(rename_all = "snake_case")]
pub enum Act {
    Open(usize),
    Step(usize),
    Close(usize),
}

#[derive(Serialize, Deserialize, Clone, Debug, PartialEq, Eq)]
pub struct QuerySpec {
    pub text: String,
    pub describe: bool,
}

#[derive(Serialize, Deserialize, Clone, Debug, PartialEq, Eq)]
#[serde(tag = "op", rename_all = "snake_case")]
pub enum Op {
    /// Build / open a database into `slot`.
    Open { slot: usize, mode: Mode, #[serde(default)] plan: Plan },
    /// Evaluate each phrase (a whole query text) on its own, descriptions on.
    Ask {
        slot: usize,
        /// explicit phrases
        #[serde(default)]
        phrases: Vec<String>,
        /// or: a file with a JSON array of phrases, optionally restricted to `subset` indices
        #[serde(default)]
        file: Option<String>,
        #[serde(default)]
        subset: Option<Vec<usize>>,
        /// also record the rendering details the command line needs (C19)
        #[serde(default)]
        detail: bool,
    },
    /// C16: look every shipped constant up by its own words.
    OwnWords {
        slot: usize,
        perms: Perms,
        /// restrict to these constant indices (replays); None = all
        #[serde(default)]
        only: Option<Vec<usize>>,
        /// after the plain sweep, ask again on the same handle in other orders: every fact between
        /// two askings of its predecessor (A B A), and all facts once more in an order shuffled from
        /// this seed. The answer to a fact's own words may not depend on what the handle was asked before.
        #[serde(default, skip_serializing_if = "Option::is_none")]
        again: Option<u64>,
    },
    /// C18: several lazily evaluated queries against one database, stepped in the given order.
    /// Isolation reference: with `iso_fresh` = Some(mode) every (text, flag) is evaluated alone on a
    /// database handle opened for it and used for nothing else; otherwise on the shared `iso_slot`.
    Interleave {
        slot: usize,
        queries: Vec<QuerySpec>,
        acts: Vec<Act>,
        iso_slot: usize,
        #[serde(default)]
        iso_fresh: Option<Mode>,
    },
    /// C18 with real caller threads: `threads[t]` lists the queries (indices into `queries`) that caller
    /// thread `t` evaluates one after the other, each stepped to exhaustion, all against the one database
    /// in `slot`. Exactly one caller thread runs at any instant; at every scheduling point (before each
    /// step, inside every lookup when the phrase is tokenised, at the end of every lookup, when a
    /// thread ends) the next thread is chosen by the next byte `c` of `schedule`: 0 = the current
    /// thread goes on (if it still can), otherwise runnable[(c - 1) % runnable.len()]; the schedule is
    /// cycled; an empty one means "lowest runnable". Skipped (and reported as such) when the database type of the
    /// tree under test is not `Sync`.
    Threads {
        slot: usize,
        queries: Vec<QuerySpec>,
        threads: Vec<Vec<usize>>,
        schedule: Vec<u8>,
        #[serde(default)]
        iso_fresh: Option<Mode>,
    },
    /// A handle that stays in use while the data directory is recovered by another open in the same
    /// process: the metadata file is removed (so that the next open recreates the index from scratch),
    /// a second `Db::open()` into `slot` is held for `hold_ms` milliseconds of real time at the hook
    /// point `hold_point`, and `ask_after_ms` into that pause another thread asks the database in
    /// `watch_slot` for the own words of the constants in `only` (C16 judgement). Real time is used
    /// because what this is after is a background thread of the search library that polls the
    /// directory on a timer; on a tree without such a thread the outcome does not depend on timing.
    /// Skipped when the database type is not `Sync`.
    OpenBeside {
        slot: usize,
        watch_slot: usize,
        hold_point: String,
        hold_ms: u64,
        ask_after_ms: u64,
        #[serde(default)]
        only: Option<Vec<usize>>,
        /// the second open fails with an I/O error at this hook point (it leaves behind whatever a
        /// run interrupted there leaves)
        #[serde(default, skip_serializing_if = "Option::is_none")]
        fail_point: Option<String>,
        /// afterwards this many seconds pass on every clock the program can read (the watched handle
        /// is left alone that long), and the watched handle is asked once more
        #[serde(default, skip_serializing_if = "is_zero64")]
        advance_s: u64,
    },
    /// Drop the database in `slot`.
    Drop { slot: usize },
    /// Another running instance: take the index writer lock of the on-disk index (if the directory
    /// holds an index that opens) and keep it until a file `<XDG_DATA_HOME>/.verif-release` appears,
    /// at most `ms` milliseconds of real time. While it is held an empty file
    /// `<XDG_DATA_HOME>/.verif-holding` exists.
    HoldWriter { ms: u64 },
}

#[derive(Serialize, Deserialize, Clone, Debug, PartialEq, Eq, Default)]
pub struct Session {
    /// number of CPUs in the affinity mask the child starts with (the code derives its worker count from it)
    #[serde(default = "one")]
    pub cpus: usize,
    #[serde(default)]
    pub faults: Vec<Fault>,
    pub ops: Vec<Op>,
    /// number of documents the harness expects the build to feed (from the repository's db files)
    #[serde(default)]
    pub expected_docs: usize,
    /// repository path (for db files)
    #[serde(default)]
    pub repo: String,
    /// run the *alternative build* of the tool (same code, other embedded data) instead of the main one
    #[serde(default, skip_serializing_if = "std::ops::Not::not")]
    pub alt: bool,
    /// run the *other-version build* of the tool (same data, another version number and another
    /// tokenizer configuration: what another release leaves behind, for real)
    #[serde(default, skip_serializing_if = "std::ops::Not::not")]
    pub ver: bool,
    /// run the *renamed-assets build* of the tool (same code, version and file contents, but the first
    /// fact asset ships under a name that sorts last: the facts are indexed in another order)
    #[serde(default, skip_serializing_if = "std::ops::Not::not")]
    pub ren: bool,
    /// run the *earlier build* of the tool: the repository as it was at the recorded baseline commit
    /// (only built when the tree under test differs from it) - what a user who updates the tool
    /// without a version change finds in the data directory
    #[serde(default, skip_serializing_if = "std::ops::Not::not")]
    pub base: bool,
    /// extra environment variables of this process start (RUST_LOG and the like; "<unset>" removes one).
    /// With RUST_LOG set the simulated process installs the same logger as the real program.
    #[serde(default, skip_serializing_if = "Vec::is_empty")]
    pub env: Vec<(String, String)>,
    /// seed of everything this process start draws with getrandom(2) (hash-map seeds of the standard
    /// library, UUIDs); 0 = derived from the history's seed and the step number
    #[serde(default, skip_serializing_if = "is_zero64")]
    pub rand: u64,
}

fn is_zero64(n: &u64) -> bool {
    *n == 0
}

fn one() -> usize {
    1
}

// ---------------------------------------------------------------------------------------------
// Event log

#[derive(Serialize, Deserialize, Clone, Debug, PartialEq, Eq)]
#[serde(tag = "r", rename_all = "snake_case")]
pub enum Res {
    Ok {
        num: String,
        den: String,
        unit: String,
        #[serde(default, skip_serializing_if = "Option::is_none")]
        detail: Option<Detail>,
    },
    Err { msg: String, start: usize, end: usize },
}

/// What the command line needs to render a value (taken from the library's own types).
#[derive(Serialize, Deserialize, Clone, Debug, PartialEq, Eq)]
pub struct Detail {
    pub display12: String,
    pub has_numerator: bool,
    pub is_one: bool,
    pub unit_singular: String,
    pub unit_plural: String,
    /// the unit taken apart: every (unit, prefix, power) entry rendered on its own by the library
    /// (singular and plural, denominators with the exponent made positive); how the parts are put
    /// together - numerator parts, '/', denominator parts - is then the simulator's own reading of
    /// the statement, not the library's Display
    #[serde(default, skip_serializing_if = "Vec::is_empty")]
    pub unit_parts: Vec<UnitPart>,
}

#[derive(Serialize, Deserialize, Clone, Debug, PartialEq, Eq)]
pub struct UnitPart {
    pub numerator: bool,
    pub singular: String,
    pub plural: String,
}

#[derive(Serialize, Deserialize, Clone, Debug, PartialEq, Eq)]
pub struct Desc {
    pub phrase: String,
    pub description: String,
    pub tokens: Vec<String>,
    pub num: String,
    pub den: String,
    pub unit: String,
    pub source: Option<u64>,
    pub source_resolves: bool,
    /// hash of the constant re-serialised as plain CBOR (null entries dropped): compared with the
    /// shipped data decoded as plain CBOR, without going through the library's types
    #[serde(default, skip_serializing_if = "String::is_empty")]
    pub raw_hash: String,
}

#[derive(Serialize, Deserialize, Clone, Debug, PartialEq, Eq)]
pub struct Lookup {
    pub phrase: String,
    /// description, tokens, value, unit of the hit
    pub hit: Option<Desc>,
}

#[derive(Serialize, Deserialize, Clone, Debug, PartialEq, Eq)]
pub struct Answer {
    pub q: String,
    pub results: Vec<Res>,
    pub descs: Vec<Desc>,
}

#[derive(Serialize, Deserialize, Clone, Debug, PartialEq, Eq, Default)]
pub struct BuildInfo {
    pub slot: usize,
    pub mode: String,
    /// Ok or the error text of `Db::open()` / `Db::in_memory()`
    pub error: Option<String>,
    /// did a rebuild run at all
    pub rebuilt: bool,
    /// number of tantivy indexing workers observed
    pub workers: usize,
    /// documents fed
    pub docs: usize,
    /// realised documents per logical worker
    pub sizes: Vec<usize>,
    /// hash of the realised doc -> worker assignment
    pub assign_hash: String,
    /// context switches (consecutive documents going to different workers)
    pub switches: usize,
    pub controlled: bool,
    pub taint: Vec<String>,
    /// hook points hit, with counts, in first-hit order
    pub points: Vec<(String, usize)>,
    /// producer threads seen feeding documents (0 = only the opening thread did)
    #[serde(default, skip_serializing_if = "is_zero")]
    pub producers: usize,
    /// hash of the realised feeding order (which producer fed the n-th document)
    #[serde(default, skip_serializing_if = "String::is_empty")]
    pub feed_hash: String,
    /// scheduling decisions taken among producers, and how many changed the running producer
    #[serde(default, skip_serializing_if = "is_zero")]
    pub producer_decisions: usize,
    #[serde(default, skip_serializing_if = "is_zero")]
    pub producer_switches: usize,
    /// the producers ran under the simulator's control from the first to the last document
    #[serde(default, skip_serializing_if = "std::ops::Not::not")]
    pub producers_controlled: bool,
}

fn is_zero(n: &usize) -> bool {
    *n == 0
}

#[derive(Serialize, Deserialize, Clone, Debug, PartialEq, Eq)]
pub struct OwnWordsFail {
    pub index: usize,
    pub phrase: String,
    pub why: String,
}

#[derive(Serialize, Deserialize, Clone, Debug, PartialEq, Eq)]
pub struct InterleaveQuery {
    pub text: String,
    pub describe: bool,
    pub results: Vec<Res>,
    pub descs: Vec<Desc>,
    /// lookups recorded by the seam during this query's steps
    pub lookups: Vec<Lookup>,
    /// the same text evaluated alone on a separate fresh database, same flag
    pub iso_results: Vec<Res>,
    pub iso_descs: Vec<Desc>,
    /// ... and with the opposite flag
    pub iso_flip_results: Vec<Res>,
    /// steps actually taken before close
    pub steps: usize,
    pub exhausted: bool,
}

#[derive(Serialize, Deserialize, Clone, Debug, PartialEq, Eq)]
#[serde(tag = "t", rename_all = "snake_case")]
pub enum Event {
    Start { cpus_seen: usize },
    Build(BuildInfo),
    Answers { slot: usize, count: usize, answers: Vec<Answer> },
    OwnWords { slot: usize, constants: usize, typeable: usize, queries: usize, fails: Vec<OwnWordsFail>, winners_hash: String },
    Interleave { slot: usize, max_open: usize, queries: Vec<InterleaveQuery> },
    /// how a `Threads` operation went (its per-query outcome follows as an `Interleave` event)
    Threads {
        slot: usize,
        threads: usize,
        /// scheduling points passed
        yields: usize,
        /// of which the running thread changed
        switches: usize,
        /// of which inside a lookup (between tokenising the phrase and searching)
        inside_lookup: usize,
        /// hash of the realised (thread, point kind) sequence
        trace_hash: String,
        /// the scheduler lost control (a caller thread did not come back within the watchdog, e.g. it
        /// blocks on a lock held by a parked thread): the threads then ran freely
        uncontrolled: bool,
        /// Some(reason) when the operation was not run at all
        skipped: Option<String>,
    },
    FaultFired { kind: String, point: String, k: usize },
    /// how a `HoldWriter` operation went
    Held { held: bool, why: String },
    /// the session ran to its end
    End,
    /// harness-level problem inside the child (never a verdict)
    HarnessError { what: String },
}

//! Deterministic simulation with fault injection for `udoprog/anything` — shared library.
pub mod dirstate;
pub mod exec;
pub mod gen;
pub mod history;
pub mod plan;
pub mod rng;
pub mod script;
pub mod shipped;
pub mod shrink;

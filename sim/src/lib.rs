//! Deterministic simulation with fault injection for `udoprog/anything` — shared library.
pub mod dirstate;
pub mod plan;
pub mod rng;
pub mod script;
pub mod shipped;

//! One simulated process start of `anything`: installs the simulation handler (worker scheduler,
//! fault injector, lookup recorder), runs the real `Db::open()` / `Db::in_memory()` and the scripted
//! operations, and writes a JSONL event log. Every decision comes from the script; nothing here
//! draws random numbers or reads a clock for anything but watchdogs.

use anything::verif::{Handler, Point};
use anything_sim::plan::{expand, Expanded};
use anything_sim::rng::fnv1a;
use anything_sim::script::*;
use anything_sim::shipped;
use num::One;
use std::collections::HashMap;
use std::io::{self, Write};
use std::sync::{Arc, Condvar, Mutex};
use std::thread::ThreadId;
use std::time::Duration;

const WATCHDOG: Duration = Duration::from_secs(20);

#[derive(Default)]
struct St {
    // --- per build
    building: bool,
    controlled: bool,
    single: bool,
    plan: Plan,
    exp: Option<Expanded>,
    workers: usize,
    ids: HashMap<ThreadId, usize>,
    parked: Vec<bool>,
    go: Vec<bool>,
    parks_total: u64,
    rem: Vec<usize>,
    sizes: Vec<usize>,
    assign: Vec<usize>,
    pending_target: Option<usize>,
    docs: usize,
    rebuilt: bool,
    taint: Vec<String>,
    points: Vec<(String, usize)>,
    // --- per process
    hits: HashMap<&'static str, usize>,
    lookups: Vec<Lookup>,
    record_lookups: bool,
    // --- caller threads of a `Threads` operation
    thr: Thr,
    // --- producer threads feeding the index writer (code under test that loads from several threads)
    prod: Prod,
}

/// Scheduler state for producer threads: threads other than the one that opened the database that
/// reach the document-feeding hook points. Exactly one of them runs between two decisions.
#[derive(Default)]
struct Prod {
    main: Option<ThreadId>,
    active: bool,
    lost: bool,
    exit: bool,
    threads: Vec<ProdT>,
    plan: Vec<(u8, u16)>,
    pos: usize,
    feed: Vec<u8>,
    decisions: usize,
    switches: usize,
    last: Option<usize>,
    free_docs: usize,
}

struct ProdT {
    tid: ThreadId,
    /// what the thread was first seen doing (hook point, its two numbers): a stable identity
    key: (String, usize, usize),
    parked: bool,
    go: u32,
}

/// Scheduler state of a `Threads` operation: exactly one registered caller thread runs at a time.
#[derive(Default)]
struct Thr {
    active: bool,
    ids: HashMap<ThreadId, usize>,
    parked: Vec<bool>,
    done: Vec<bool>,
    turn: Option<usize>,
    schedule: Vec<u8>,
    pos: usize,
    yields: usize,
    switches: usize,
    inside_lookup: usize,
    trace: Vec<u8>,
    lookups: Vec<Vec<Lookup>>,
    broken: bool,
}

const Y_STEP: u8 = 1;
const Y_TOKENIZE: u8 = 2;
const Y_LOOKUP: u8 = 3;
const Y_END: u8 = 4;
const Y_POINT: u8 = 5;
const THR_WATCHDOG: Duration = Duration::from_secs(10);

struct H {
    /// (hook point, milliseconds): pause there once, in real time (`OpenBeside`)
    delay: Mutex<Option<(String, u64)>>,
    /// hook point at which the next hit fails once with an I/O error (`OpenBeside`)
    fail_once: Mutex<Option<String>>,
    /// producer threads are not scheduled while this is set (`OpenBeside` uses real time instead)
    no_producer_gate: std::sync::atomic::AtomicBool,
    st: Mutex<St>,
    cv: Condvar,
    faults: Vec<Fault>,
    expected_docs: usize,
    log: Mutex<std::fs::File>,
}

fn emit(log: &Mutex<std::fs::File>, e: &Event) {
    let mut line = serde_json::to_vec(e).expect("event serialises");
    line.push(b'\n');
    let mut f = log.lock().unwrap();
    let _ = f.write_all(&line);
    let _ = f.flush();
}

impl H {
    fn taint(&self, st: &mut St, why: &str) {
        if !st.taint.iter().any(|t| t == why) {
            st.taint.push(why.to_string());
        }
    }

    /// Give up controlling this build: release everybody, pass everything through.
    fn uncontrol(&self, st: &mut St, why: &str) {
        if st.controlled {
            st.controlled = false;
            self.taint(st, why);
        }
        for g in st.go.iter_mut() {
            *g = true;
        }
        self.cv.notify_all();
    }

    /// Release worker `w` for one tokenizer call; returns false on watchdog.
    fn release(&self, w: usize) -> bool {
        let mut st = self.st.lock().unwrap();
        if w >= st.parked.len() || !st.parked[w] {
            return false;
        }
        st.go[w] = true;
        self.cv.notify_all();
        while st.parked[w] && st.go[w] {
            let (g, t) = self.cv.wait_timeout(st, WATCHDOG).unwrap();
            st = g;
            if t.timed_out() && st.parked[w] && st.go[w] {
                return false;
            }
        }
        true
    }

    fn wait_parks(&self, target: u64) -> bool {
        let mut st = self.st.lock().unwrap();
        while st.parks_total < target {
            let (g, t) = self.cv.wait_timeout(st, WATCHDOG).unwrap();
            st = g;
            if t.timed_out() && st.parks_total < target {
                return false;
            }
        }
        true
    }

    /// Let worker `w` finish the document it holds.
    fn drain(&self, w: usize) -> bool {
        loop {
            let (r, p) = {
                let st = self.st.lock().unwrap();
                (st.rem.get(w).copied().unwrap_or(0), st.parks_total)
            };
            if r == 0 {
                return true;
            }
            if !self.release(w) {
                return false;
            }
            let r = {
                let mut st = self.st.lock().unwrap();
                st.rem[w] -= 1;
                st.rem[w]
            };
            if r > 0 && !self.wait_parks(p + 1) {
                return false;
            }
        }
    }

    /// A document-feeding hook point was reached. When threads other than the opening thread feed
    /// documents, each of them parks before every document until the scheduler grants it a stretch.
    fn producer_gate(&self, p: &Point<'_>) {
        let tid = std::thread::current().id();
        let mut st = self.st.lock().unwrap();
        if !st.building || st.controlled || st.prod.lost {
            return;
        }
        if !st.prod.active {
            if st.prod.main == Some(tid) {
                if p.name == "rebuild.before_add" {
                    st.prod.free_docs += 1;
                }
                return;
            }
            st.prod.active = true;
        }
        let me = match st.prod.threads.iter().position(|t| t.tid == tid) {
            Some(i) => i,
            None => {
                st.prod.threads.push(ProdT { tid, key: (p.name.to_string(), p.n, p.m), parked: false, go: 0 });
                st.prod.threads.len() - 1
            }
        };
        // a producer waits for its turn before it starts on an asset and before every document
        if p.name != "rebuild.before_add" && p.name != "rebuild.asset_start" {
            return;
        }
        if st.prod.threads[me].go == 0 {
            st.prod.threads[me].parked = true;
            self.cv.notify_all();
            while st.prod.threads[me].go == 0 && st.prod.active && !st.prod.lost {
                let (g, t) = self.cv.wait_timeout(st, WATCHDOG * 3).unwrap();
                st = g;
                if t.timed_out() && st.prod.threads[me].go == 0 && st.prod.active && !st.prod.lost {
                    st.prod.lost = true;
                    st.taint.push("producer-park-timeout".into());
                    self.cv.notify_all();
                }
            }
            st.prod.threads[me].parked = false;
        }
        if st.prod.threads[me].go > 0 {
            st.prod.threads[me].go -= 1;
        }
        let h = fnv1a(format!("{:?}{}", st.prod.threads[me].key, p.name).as_bytes());
        st.prod.feed.extend_from_slice(&h.to_le_bytes()[..2]);
    }

    /// Are all threads of this process except the calling one asleep (blocked), i.e. is nobody
    /// running or about to run? Read from the kernel's view of the tasks; seen twice in a row.
    fn quiescent(own_tid: i32) -> bool {
        for round in 0..2 {
            let Ok(rd) = std::fs::read_dir("/proc/self/task") else { return false };
            for e in rd.filter_map(|e| e.ok()) {
                let name = e.file_name();
                if name.to_string_lossy() == own_tid.to_string() {
                    continue;
                }
                let Ok(stat) = std::fs::read_to_string(e.path().join("stat")) else { continue };
                // "<pid> (<comm>) <state> ..."
                let state = stat.rsplit_once(") ").and_then(|(_, r)| r.chars().next()).unwrap_or('R');
                if state != 'S' {
                    return false;
                }
            }
            if round == 0 {
                std::thread::yield_now();
                std::thread::sleep(Duration::from_micros(50));
            }
        }
        true
    }

    /// The producer scheduler: sleeps until producers appear, then, whenever every thread of the
    /// process is blocked and producers are parked with nobody released, releases the one the plan names.
    fn producer_scheduler(self: Arc<H>) {
        let own = unsafe { libc::syscall(libc::SYS_gettid) as i32 };
        loop {
            let need = {
                let mut st = self.st.lock().unwrap();
                loop {
                    if st.prod.exit {
                        return;
                    }
                    if st.prod.active && !st.prod.lost {
                        break;
                    }
                    let (g, _) = self.cv.wait_timeout(st, Duration::from_millis(20)).unwrap();
                    st = g;
                }
                st.prod.threads.iter().any(|t| t.parked) && !st.prod.threads.iter().any(|t| t.parked && t.go > 0)
            };
            if !need || !H::quiescent(own) {
                std::thread::sleep(Duration::from_micros(100));
                continue;
            }
            let mut st = self.st.lock().unwrap();
            if !st.prod.active || st.prod.lost {
                continue;
            }
            let mut cand: Vec<usize> = (0..st.prod.threads.len()).filter(|i| st.prod.threads[*i].parked).collect();
            if cand.is_empty() || cand.iter().any(|i| st.prod.threads[*i].go > 0) {
                continue;
            }
            cand.sort_by(|a, b| st.prod.threads[*a].key.cmp(&st.prod.threads[*b].key));
            if cand.windows(2).any(|w| st.prod.threads[w[0]].key == st.prod.threads[w[1]].key) {
                let why = "indistinguishable-producers".to_string();
                if !st.taint.contains(&why) {
                    st.taint.push(why);
                }
            }
            let (c, len) = if st.prod.plan.is_empty() { (0u8, u16::MAX) } else { st.prod.plan[st.prod.pos % st.prod.plan.len()] };
            st.prod.pos += 1;
            let who = cand[c as usize % cand.len()];
            st.prod.threads[who].go = (len as u32).max(1);
            st.prod.decisions += 1;
            if st.prod.last.is_some() && st.prod.last != Some(who) {
                st.prod.switches += 1;
            }
            st.prod.last = Some(who);
            self.cv.notify_all();
        }
    }

    /// Choose who runs next (all threads that are not done are parked, the caller included).
    fn thr_pick(t: &mut Thr, me: Option<usize>) {
        let runnable: Vec<usize> = (0..t.done.len()).filter(|i| !t.done[*i]).collect();
        if runnable.is_empty() {
            t.turn = None;
            return;
        }
        // the schedule is cycled (an empty one means "lowest runnable")
        let c = if t.schedule.is_empty() { None } else { Some(t.schedule[t.pos % t.schedule.len()]) };
        t.pos += 1;
        let next = match (c, me) {
            (Some(0), Some(m)) if !t.done[m] => m,
            (Some(c), _) => runnable[(c.max(1) as usize - 1) % runnable.len()],
            (None, _) => runnable[0],
        };
        if let Some(m) = me {
            if m != next {
                t.switches += 1;
            }
        }
        t.turn = Some(next);
    }

    /// Wait until it is `me`'s turn (or control is lost).
    fn thr_wait<'a>(&'a self, mut st: std::sync::MutexGuard<'a, St>, me: usize) -> std::sync::MutexGuard<'a, St> {
        while st.thr.turn != Some(me) && !st.thr.broken && st.thr.active {
            let (g, t) = self.cv.wait_timeout(st, THR_WATCHDOG).unwrap();
            st = g;
            if t.timed_out() && st.thr.turn != Some(me) && !st.thr.broken && st.thr.active {
                // whoever has the turn is not coming back (it may block on a lock one of the parked
                // threads holds): give up control, everybody runs freely from here on
                st.thr.broken = true;
                self.cv.notify_all();
            }
        }
        st
    }

    /// A scheduling point reached by a registered caller thread that holds the turn.
    fn thr_yield(&self, kind: u8) {
        let mut st = self.st.lock().unwrap();
        if !st.thr.active || st.thr.broken {
            return;
        }
        let Some(&me) = st.thr.ids.get(&std::thread::current().id()) else { return };
        st.thr.yields += 1;
        if kind == Y_TOKENIZE {
            st.thr.inside_lookup += 1;
        }
        st.thr.trace.push(me as u8);
        st.thr.trace.push(kind);
        st.thr.parked[me] = true;
        H::thr_pick(&mut st.thr, Some(me));
        self.cv.notify_all();
        let mut st = self.thr_wait(st, me);
        st.thr.parked[me] = false;
    }

    fn thr_register(&self, me: usize) {
        let mut st = self.st.lock().unwrap();
        st.thr.ids.insert(std::thread::current().id(), me);
        st.thr.parked[me] = true;
        // (registration order is the operating system's business and is not part of the trace)
        self.cv.notify_all();
        let mut st = self.thr_wait(st, me);
        st.thr.parked[me] = false;
    }

    fn thr_finish(&self, me: usize) {
        let mut st = self.st.lock().unwrap();
        st.thr.done[me] = true;
        st.thr.trace.push(me as u8);
        st.thr.trace.push(Y_END);
        if !st.thr.broken {
            H::thr_pick(&mut st.thr, Some(me));
        }
        self.cv.notify_all();
    }

    fn thr_take_lookups(&self, me: usize) -> Vec<Lookup> {
        let mut st = self.st.lock().unwrap();
        st.thr.lookups.get_mut(me).map(|v| v.drain(..).collect()).unwrap_or_default()
    }

    fn count_workers() -> usize {
        // Threads name themselves after they start: wait until no thread but main still carries the
        // process's own name (monotone condition; polling it leaks no timing into decisions).
        let me = std::fs::read_to_string("/proc/self/comm").unwrap_or_default();
        let mut n = 0;
        for _ in 0..20000 {
            let comms: Vec<String> = match std::fs::read_dir("/proc/self/task") {
                Ok(rd) => rd
                    .filter_map(|e| e.ok())
                    .filter_map(|e| std::fs::read_to_string(e.path().join("comm")).ok())
                    .collect(),
                Err(_) => return 0,
            };
            n = comms.iter().filter(|c| c.starts_with("thrd-tantivy")).count();
            if comms.iter().filter(|c| **c == me).count() <= 1 {
                break;
            }
            std::thread::sleep(Duration::from_micros(200));
        }
        n
    }
}

impl Handler for H {
    fn point(&self, p: &Point<'_>) -> io::Result<()> {
        let k = {
            let mut st = self.st.lock().unwrap();
            let e = st.hits.entry(p.name).or_insert(0);
            let k = *e;
            *e += 1;
            match st.points.iter_mut().find(|(n, _)| n == p.name) {
                Some((_, c)) => *c += 1,
                None => st.points.push((p.name.to_string(), 1)),
            }
            k
        };
        for f in &self.faults {
            match f {
                Fault::Kill { point, k: at } if point == p.name && *at == k => {
                    emit(&self.log, &Event::FaultFired { kind: "kill".into(), point: point.clone(), k });
                    unsafe {
                        libc::kill(libc::getpid(), libc::SIGKILL);
                    }
                    loop {
                        std::thread::sleep(Duration::from_secs(60));
                    }
                }
                Fault::FailKind { point, k: at, error: kind } if point == p.name && *at == k => {
                    emit(&self.log, &Event::FaultFired { kind: "fail".into(), point: format!("{point}:{kind}"), k });
                    {
                        let mut st = self.st.lock().unwrap();
                        st.controlled = false;
                        for g in st.go.iter_mut() {
                            *g = true;
                        }
                        if st.prod.active {
                            st.prod.lost = true;
                        }
                        self.cv.notify_all();
                    }
                    let ek = match kind.as_str() {
                        "permission_denied" => io::ErrorKind::PermissionDenied,
                        "not_found" => io::ErrorKind::NotFound,
                        "already_exists" => io::ErrorKind::AlreadyExists,
                        "would_block" => io::ErrorKind::WouldBlock,
                        "invalid_data" => io::ErrorKind::InvalidData,
                        "unexpected_eof" => io::ErrorKind::UnexpectedEof,
                        "out_of_memory" => io::ErrorKind::OutOfMemory,
                        "timed_out" => io::ErrorKind::TimedOut,
                        "write_zero" => io::ErrorKind::WriteZero,
                        "unsupported" => io::ErrorKind::Unsupported,
                        _ => io::ErrorKind::Other,
                    };
                    return Err(io::Error::new(ek, format!("injected {kind} at {}#{}", p.name, k)));
                }
                Fault::Fail { point, k: at, interrupted } if point == p.name && *at == k => {
                    emit(
                        &self.log,
                        &Event::FaultFired { kind: if *interrupted { "eintr".into() } else { "fail".into() }, point: point.clone(), k },
                    );
                    {
                        // the error path drops the index writer, which joins its workers: let them go
                        let mut st = self.st.lock().unwrap();
                        st.controlled = false;
                        for g in st.go.iter_mut() {
                            *g = true;
                        }
                        if st.prod.active {
                            st.prod.lost = true;
                        }
                        self.cv.notify_all();
                    }
                    let kind = if *interrupted { io::ErrorKind::Interrupted } else { io::ErrorKind::Other };
                    return Err(io::Error::new(kind, format!("injected failure at {}#{}", p.name, k)));
                }
                _ => {}
            }
        }
        {
            let d = self.delay.lock().unwrap().clone();
            if let Some((point, ms)) = d {
                if point == p.name {
                    *self.delay.lock().unwrap() = None;
                    std::thread::sleep(Duration::from_millis(ms));
                }
            }
        }
        {
            let mut f = self.fail_once.lock().unwrap();
            if f.as_deref() == Some(p.name) {
                *f = None;
                drop(f);
                emit(&self.log, &Event::FaultFired { kind: "fail".into(), point: format!("{}(second open)", p.name), k: 0 });
                return Err(io::Error::new(io::ErrorKind::Other, format!("injected failure at {}", p.name)));
            }
        }
        if matches!(p.name, "rebuild.asset_start" | "rebuild.before_add" | "rebuild.after_add") && !self.no_producer_gate.load(std::sync::atomic::Ordering::SeqCst) {
            self.producer_gate(p);
        }
        {
            // a caller thread of a `Threads` operation reached a hook point (code that builds or
            // opens something lazily, inside a lookup): one more place where another caller may run
            let st = self.st.lock().unwrap();
            if st.thr.active && st.thr.ids.contains_key(&std::thread::current().id()) {
                drop(st);
                self.thr_yield(Y_POINT);
            }
        }
        if p.name == "rebuild.before_commit" {
            // feeding is over: whoever is still parked (there should be nobody) goes
            let mut st = self.st.lock().unwrap();
            if st.prod.active {
                st.prod.active = false;
                self.cv.notify_all();
            }
        }
        match p.name {
            "rebuild.start" => {
                let mut st = self.st.lock().unwrap();
                st.rebuilt = true;
            }
            "rebuild.writer_created" => {
                let n = H::count_workers();
                let mut st = self.st.lock().unwrap();
                st.workers = n;
                st.ids.clear();
                st.parked.clear();
                st.go.clear();
                st.rem.clear();
                st.sizes.clear();
                st.assign.clear();
                st.parks_total = 0;
                st.docs = 0;
                st.pending_target = None;
                if n == 0 {
                    st.controlled = false;
                    st.taint.push("no-worker-threads".into());
                } else if n == 1 {
                    // one worker: there is nothing to schedule (documents arrive in feeding order);
                    // do not park it ~2000 times per build for nothing
                    st.controlled = false;
                    st.single = true;
                } else {
                    let exp = expand(&st.plan, n, self.expected_docs);
                    if !exp.distinct && n > 1 {
                        st.taint.push("equal-segment-sizes".into());
                    }
                    st.exp = Some(exp);
                    st.controlled = true;
                }
            }
            "rebuild.before_add" => {
                let (controlled, known, i, target) = {
                    let st = self.st.lock().unwrap();
                    let i = st.docs;
                    let t = st.exp.as_ref().and_then(|e| e.targets.get(i).copied());
                    (st.controlled, st.sizes.len(), i, t)
                };
                if controlled {
                    let n = self.st.lock().unwrap().workers;
                    let target = match target {
                        Some(t) => t,
                        None => {
                            // more documents than the harness expected: keep feeding worker 0
                            let mut st = self.st.lock().unwrap();
                            self.taint(&mut st, "more-docs-than-expected");
                            0
                        }
                    };
                    // while fresh workers exist the target must be the next fresh one
                    let target = if known < n { known } else { target.min(n - 1) };
                    let _ = i;
                    if target < known && !self.drain(target) {
                        let mut st = self.st.lock().unwrap();
                        self.uncontrol(&mut st, "watchdog-drain");
                        return Ok(());
                    }
                    self.st.lock().unwrap().pending_target = Some(target);
                }
            }
            "rebuild.after_add" => {
                let (controlled, target) = {
                    let st = self.st.lock().unwrap();
                    (st.controlled, st.pending_target)
                };
                {
                    let mut st = self.st.lock().unwrap();
                    st.docs += 1;
                }
                if controlled {
                    let Some(target) = target else { return Ok(()) };
                    let values = p.m;
                    let mut st = self.st.lock().unwrap();
                    let is_new = target == st.sizes.len();
                    if values == 0 {
                        // no tokenizer call will happen for this document: it cannot be tracked
                        if is_new {
                            self.uncontrol(&mut st, "empty-document-on-fresh-worker");
                            return Ok(());
                        }
                        st.sizes[target] += 1;
                        st.assign.push(target);
                        return Ok(());
                    }
                    let mut ok = true;
                    loop {
                        let parked = st.parked.get(target).copied().unwrap_or(false);
                        if parked {
                            break;
                        }
                        let (g, t) = self.cv.wait_timeout(st, WATCHDOG).unwrap();
                        st = g;
                        if t.timed_out() {
                            ok = false;
                            break;
                        }
                    }
                    if !ok {
                        self.uncontrol(&mut st, "watchdog-no-park");
                        return Ok(());
                    }
                    if is_new {
                        st.sizes.push(0);
                        st.rem.push(0);
                    }
                    // exactly one worker may hold an unfinished, unaccounted document
                    st.sizes[target] += 1;
                    st.rem[target] = values;
                    st.assign.push(target);
                }
            }
            "rebuild.before_commit" => {
                let (controlled, order) = {
                    let st = self.st.lock().unwrap();
                    let known = st.sizes.len();
                    let order: Vec<usize> = st
                        .exp
                        .as_ref()
                        .map(|e| e.release.iter().copied().filter(|w| *w < known).collect())
                        .unwrap_or_default();
                    (st.controlled, order)
                };
                if controlled {
                    for w in order {
                        if !self.drain(w) {
                            let mut st = self.st.lock().unwrap();
                            self.uncontrol(&mut st, "watchdog-final-drain");
                            break;
                        }
                    }
                    let mut st = self.st.lock().unwrap();
                    if st.docs != self.expected_docs {
                        self.taint(&mut st, "doc-count-mismatch");
                    }
                    let mut s = st.sizes.clone();
                    s.sort();
                    s.dedup();
                    if s.len() != st.sizes.len() {
                        self.taint(&mut st, "equal-segment-sizes");
                    }
                    // from here on everything passes through (commit, later builds reset this)
                    st.controlled = false;
                    for g in st.go.iter_mut() {
                        *g = true;
                    }
                    self.cv.notify_all();
                }
            }
            _ => {}
        }
        Ok(())
    }

    fn tokenize(&self, _text: &str) {
        let cur = std::thread::current();
        {
            let st = self.st.lock().unwrap();
            if st.thr.active && st.thr.ids.contains_key(&cur.id()) {
                drop(st);
                // a caller thread of a `Threads` operation is inside Db::lookup, about to search
                self.thr_yield(Y_TOKENIZE);
                return;
            }
        }
        if !cur.name().map(|n| n.starts_with("thrd-tantivy-index")).unwrap_or(false) {
            return;
        }
        let mut st = self.st.lock().unwrap();
        if !st.controlled {
            return;
        }
        let tid = cur.id();
        let n = st.ids.len();
        let w = *st.ids.entry(tid).or_insert(n);
        if w == st.parked.len() {
            st.parked.push(false);
            st.go.push(false);
        }
        st.parked[w] = true;
        st.parks_total += 1;
        self.cv.notify_all();
        while !st.go[w] && st.controlled {
            let (g, t) = self.cv.wait_timeout(st, WATCHDOG * 3).unwrap();
            st = g;
            if t.timed_out() && !st.go[w] && st.controlled {
                // nobody is coming (an error path is joining us): leave, and say so
                st.controlled = false;
                st.taint.push("park-timeout".into());
                for g in st.go.iter_mut() {
                    *g = true;
                }
                break;
            }
        }
        st.go[w] = false;
        st.parked[w] = false;
        self.cv.notify_all();
    }

    fn lookup(&self, phrase: &str, hit: Option<&anything::Constant>) {
        let mut st = self.st.lock().unwrap();
        if st.thr.active {
            if let Some(&me) = st.thr.ids.get(&std::thread::current().id()) {
                let l = Lookup { phrase: phrase.to_string(), hit: hit.map(|c| desc_of(phrase, c, None)) };
                st.thr.lookups[me].push(l);
                drop(st);
                self.thr_yield(Y_LOOKUP);
                return;
            }
        }
        if st.record_lookups {
            let l = Lookup { phrase: phrase.to_string(), hit: hit.map(|c| desc_of(phrase, c, None)) };
            st.lookups.push(l);
        }
    }

    fn meta_write(&self, _written: usize, len: usize) -> io::Result<usize> {
        for f in &self.faults {
            if let Fault::ShortWrites { max } = f {
                return Ok(len.min((*max).max(1)));
            }
        }
        Ok(len)
    }
}

fn desc_of(phrase: &str, c: &anything::Constant, db: Option<&anything::Db>) -> Desc {
    Desc {
        phrase: phrase.to_string(),
        description: c.description.to_string(),
        tokens: c.tokens.iter().map(|t| t.to_string()).collect(),
        num: c.value.numer().to_string(),
        den: c.value.denom().to_string(),
        unit: c.unit.to_string(),
        source: c.source,
        source_resolves: match (c.source, db) {
            (Some(id), Some(db)) => db.get_source(id).is_some(),
            _ => true,
        },
        raw_hash: serde_cbor::value::to_value(c).map(|v| shipped::norm_hash(&v)).unwrap_or_default(),
    }
}

fn res_of(r: Result<anything::Numeric, anything::Error>, detail: bool) -> Res {
    match r {
        Ok(v) => {
            let d = if detail {
                let mut spec = anything::rational::DisplaySpec::default();
                spec.limit = 12;
                spec.exponent_limit = 12;
                spec.show_continuation = true;
                Some(Detail {
                    display12: v.value.display(&spec).to_string(),
                    has_numerator: v.unit.has_numerator(),
                    is_one: v.value.is_one(),
                    unit_singular: v.unit.display(false).to_string(),
                    unit_plural: v.unit.display(true).to_string(),
                    unit_parts: unit_parts(&v.unit),
                })
            } else {
                None
            };
            Res::Ok { num: v.value.numer().to_string(), den: v.value.denom().to_string(), unit: v.unit.to_string(), detail: d }
        }
        Err(e) => {
            let r = e.range();
            Res::Err { msg: e.to_string(), start: r.start, end: r.end }
        }
    }
}

/// Take a compound unit apart through its serialised form and let the library render every entry on
/// its own (in the library's own order of units). Empty when the representation is not the expected
/// `{names: {unit: {power, prefix}}}`.
fn unit_parts(u: &anything::Compound) -> Vec<UnitPart> {
    use serde_cbor::Value as V;
    use std::iter::FromIterator;
    let Ok(v) = serde_cbor::value::to_value(u) else { return vec![] };
    let V::Map(top) = &v else { return vec![] };
    let Some(V::Map(names)) = top.get(&V::Text("names".into())) else { return vec![] };
    let mut entries: Vec<(anything::Unit, i32, i32)> = Vec::new();
    for (unit, state) in names {
        let Ok(unit) = serde_cbor::value::from_value::<anything::Unit>(unit.clone()) else { return vec![] };
        let V::Map(st) = state else { return vec![] };
        let (Some(V::Integer(power)), Some(V::Integer(prefix))) = (st.get(&V::Text("power".into())), st.get(&V::Text("prefix".into()))) else { return vec![] };
        entries.push((unit, *power as i32, *prefix as i32));
    }
    entries.sort_by(|a, b| a.0.cmp(&b.0));
    entries
        .into_iter()
        .map(|(unit, power, prefix)| {
            // the name comes from the library (the unit to the first power); the exponent is written
            // here, digit by digit, so that the rendering of powers is not taken on trust either
            let first = anything::Compound::from_iter([(unit, (1, prefix))]);
            let sup = |n: i32| -> String {
                if n == 1 {
                    return String::new();
                }
                n.to_string().chars().map(|c| match c { '0' => '⁰', '1' => '¹', '2' => '²', '3' => '³', '4' => '⁴', '5' => '⁵', '6' => '⁶', '7' => '⁷', '8' => '⁸', '9' => '⁹', '-' => '⁻', o => o }).collect()
            };
            let p = power.abs();
            UnitPart { numerator: power >= 0, singular: format!("{}{}", first.display(false), sup(p)), plural: format!("{}{}", first.display(true), sup(p)) }
        })
        .collect()
}

fn eval_alone(db: &anything::Db, text: &str, describe: bool, detail: bool) -> (Vec<Res>, Vec<Desc>) {
    let parsed = match anything::parse(text) {
        Ok(p) => p,
        Err(e) => return (vec![Res::Err { msg: format!("parse: {e}"), start: 0, end: 0 }], vec![]),
    };
    let mut d = Vec::new();
    let o = if describe { anything::Options::default().describe() } else { anything::Options::default() };
    let results: Vec<Res> = anything::query(&parsed, db, o, &mut d).map(|r| res_of(r, detail)).collect();
    let descs = d
        .into_iter()
        .map(|x| match x {
            anything::Description::Constant(q, c) => desc_of(&q, &c, Some(db)),
        })
        .collect();
    (results, descs)
}

fn open_db(h: &Arc<H>, slot: usize, mode: Mode, plan: &Plan) -> (Option<anything::Db>, BuildInfo) {
    {
        let mut st = h.st.lock().unwrap();
        st.building = true;
        st.controlled = false;
        st.single = false;
        st.plan = plan.clone();
        st.exp = None;
        st.workers = 0;
        st.sizes.clear();
        st.assign.clear();
        st.docs = 0;
        st.rebuilt = false;
        st.taint.clear();
        st.points.clear();
        let main = st.prod.main;
        st.prod = Prod { main, plan: plan.producers.clone(), ..Prod::default() };
    }
    let r = match mode {
        Mode::Mem => anything::Db::in_memory(),
        Mode::Disk => anything::Db::open(),
    };
    let mut st = h.st.lock().unwrap();
    st.building = false;
    st.controlled = false;
    for g in st.go.iter_mut() {
        *g = true;
    }
    st.prod.active = false;
    h.cv.notify_all();
    let mut switches = 0;
    for w in st.assign.windows(2) {
        if w[0] != w[1] {
            switches += 1;
        }
    }
    if st.single {
        st.sizes = vec![st.docs];
        st.assign = vec![0; st.docs];
    }
    let bytes: Vec<u8> = st.assign.iter().map(|w| *w as u8).collect();
    let info = BuildInfo {
        slot,
        mode: match mode {
            Mode::Mem => "mem".into(),
            Mode::Disk => "disk".into(),
        },
        error: r.as_ref().err().map(|e| format!("{e:#}")),
        rebuilt: st.rebuilt,
        workers: st.workers,
        docs: st.docs,
        sizes: st.sizes.clone(),
        assign_hash: format!("{:016x}", fnv1a(&bytes)),
        switches,
        controlled: (st.single || st.rebuilt && st.workers > 0) && !st.taint.iter().any(|t| t.starts_with("watchdog") || t == "no-worker-threads" || t == "park-timeout" || t.starts_with("empty-document")),
        taint: st.taint.clone(),
        points: st.points.clone(),
        producers: st.prod.threads.len(),
        feed_hash: if st.prod.threads.is_empty() { String::new() } else { format!("{:016x}", fnv1a(&st.prod.feed)) },
        producer_decisions: st.prod.decisions,
        producer_switches: st.prod.switches,
        producers_controlled: !st.prod.threads.is_empty() && !st.prod.lost && st.prod.free_docs == 0 && !st.taint.iter().any(|t| t.contains("producer")),
    };
    (r.ok(), info)
}

fn load_phrases(phrases: &[String], file: &Option<String>, subset: &Option<Vec<usize>>) -> Result<Vec<String>, String> {
    let mut out: Vec<String> = phrases.to_vec();
    if let Some(f) = file {
        let text = std::fs::read_to_string(f).map_err(|e| format!("{f}: {e}"))?;
        let all: Vec<String> = serde_json::from_str(&text).map_err(|e| format!("{f}: {e}"))?;
        match subset {
            Some(idx) => {
                for i in idx {
                    if let Some(p) = all.get(*i) {
                        out.push(p.clone());
                    }
                }
            }
            None => out.extend(all),
        }
    }
    Ok(out)
}

/// Ask for one phrase and judge the answer against the words it was made of.
type Canon = (Vec<String>, String, String, String, String, Option<u64>);

fn canon_of(d: &Desc) -> Canon {
    (d.tokens.clone(), d.description.clone(), d.num.clone(), d.den.clone(), d.unit.clone(), d.source)
}

fn own_words_ask(db: &anything::Db, phrase: &str, words: &[&str], shipped: &(std::collections::HashSet<Canon>, std::collections::HashSet<String>), plain_first: bool) -> (Option<String>, Option<String>) {
    let (shipped, shipped_raw) = (&shipped.0, &shipped.1);
    if plain_first {
        // the same words evaluated without descriptions first: what is described afterwards must
        // still be a complete constant
        let _ = eval_alone(db, phrase, false, false);
    }
    let (results, descs) = eval_alone(db, phrase, true, false);
    let mut why = None;
    let mut winner = None;
    if results.len() != 1 {
        why = Some(format!("{} results", results.len()));
    } else if let Res::Err { msg, .. } = &results[0] {
        why = Some(format!("error: {msg}"));
    } else if descs.len() != 1 {
        why = Some(format!("{} descriptions", descs.len()));
    } else {
        let d = &descs[0];
        if let Some(w) = words.iter().find(|w| !d.tokens.iter().any(|t| t == *w)) {
            why = Some(format!("returned constant {:?} ({}) lacks the word {w:?}", d.tokens, d.description));
        } else if !d.source_resolves {
            why = Some(format!("source {:?} of {:?} does not resolve", d.source, d.description));
        } else if let Res::Ok { num, den, unit, .. } = &results[0] {
            if *num != d.num || *den != d.den || *unit != d.unit {
                why = Some(format!("value {num}/{den} {unit} is not the described constant's {}/{} {}", d.num, d.den, d.unit));
            }
        }
        if why.is_none() && !shipped.contains(&canon_of(d)) {
            // "decodes completely": words, description, value, unit and source together are those
            // of one shipped constant
            why = Some(format!("returned constant {:?} (description {:?}, source {:?}) is not, field for field, any shipped constant", d.tokens, d.description, d.source));
        }
        if why.is_none() && !shipped_raw.contains(&d.raw_hash) {
            // ... also when both are looked at as plain CBOR (the shipped side never went through
            // the library's types)
            why = Some(format!("returned constant {:?} (description {:?}, unit {:?}) re-serialised as plain CBOR is not any shipped constant", d.tokens, d.description, d.unit));
        }
        winner = Some(d.description.clone());
    }
    (why, winner)
}

fn own_words(db: &anything::Db, s: &shipped::Shipped, perms: Perms, only: &Option<Vec<usize>>, again: Option<u64>, slot: usize) -> Event {
    let mut typeable = 0;
    let mut queries = 0;
    let mut fails = Vec::new();
    let mut winners: Vec<u8> = Vec::new();
    // (constant index, plain phrase of its words in shipped order, winner of the plain sweep)
    let mut plain: Vec<(usize, String, Option<String>)> = Vec::new();
    let shipped_set: (std::collections::HashSet<Canon>, std::collections::HashSet<String>) = (s.constants.iter().map(|c| canon_of(&desc_of("", c, None))).collect(), s.raw.iter().map(shipped::norm_hash).collect());
    let all_tokens = s.all_tokens();
    for (index, toks) in all_tokens.iter().enumerate() {
        if let Some(only) = only {
            if !only.contains(&index) {
                continue;
            }
        }
        let words: Vec<&str> = toks.iter().map(|t| t.as_str()).collect();
        if shipped::typed_forms(&words).is_empty() {
            continue;
        }
        typeable += 1;
        // a fact with a word that is not all lower-case letters (an apostrophe, a dot, a digit, a
        // capital) is always asked in every order of its words: there are few of them, and word-level
        // rewriting of phrases shows in some orders only
        let unusual = words.iter().any(|w| !w.chars().all(|c| c.is_lowercase() && c.is_alphabetic()));
        let perms = if unusual && words.len() <= 5 { Perms::All } else { perms };
        let orders: Vec<Vec<usize>> = match perms {
            Perms::Identity => vec![(0..words.len()).collect()],
            Perms::Reverse => {
                let id: Vec<usize> = (0..words.len()).collect();
                let mut rev = id.clone();
                rev.reverse();
                if rev == id {
                    vec![id]
                } else {
                    vec![id, rev]
                }
            }
            Perms::All => shipped::permutations(words.len(), 5040),
        };
        for (oi, order) in orders.into_iter().enumerate() {
            let pw: Vec<&str> = order.iter().map(|i| words[*i]).collect();
            for (fi, phrase) in shipped::typed_forms(&pw).into_iter().enumerate() {
                queries += 1;
                // first contact of this handle with this phrase: for every other constant without
                // descriptions first (whatever the handle remembers of a lookup must be complete)
                let (why, winner) = own_words_ask(db, &phrase, &words, &shipped_set, (index + oi + fi) % 2 == 0);
                if let Some(w) = &winner {
                    winners.extend_from_slice(phrase.as_bytes());
                    winners.push(0);
                    winners.extend_from_slice(w.as_bytes());
                    winners.push(0xff);
                }
                if oi == 0 && fi == 0 {
                    plain.push((index, phrase.clone(), winner));
                }
                if let Some(why) = why {
                    fails.push(OwnWordsFail { index, phrase: phrase.clone(), why });
                }
            }
        }
    }
    // the words of a fact separated by other blanks than one space: several spaces, a tab, and the
    // Unicode blanks that reach a command line by copy and paste (no-break space, thin space,
    // ideographic space). Asked for every fourth fact, and for every fact whose words are not all
    // lower-case letters; only forms the real parser reads as one phrase of these words count.
    for (index, toks) in all_tokens.iter().enumerate() {
        if let Some(only) = only {
            if !only.contains(&index) {
                continue;
            }
        }
        let plainish = toks.iter().all(|t| t.chars().all(|c| c.is_ascii_lowercase()));
        if toks.len() < 2 || (plainish && index % 4 != 0) {
            continue;
        }
        let words: Vec<&str> = toks.iter().map(|t| t.as_str()).collect();
        if shipped::typed_forms(&words).is_empty() {
            continue;
        }
        for sep in ["  ", "\t", "\u{a0}", "\u{2009}", "\u{3000}", " \u{a0} "] {
            let phrase = words.join(sep);
            if !shipped::is_phrase(&phrase, &phrase) {
                continue;
            }
            queries += 1;
            let (why, _) = own_words_ask(db, &phrase, &words, &shipped_set, false);
            if let Some(why) = why {
                fails.push(OwnWordsFail { index, phrase: phrase.clone(), why: format!("(words separated by {sep:?}) {why}") });
            }
        }
    }
    if let Some(seed) = again {
        // the same handle, other orders: A B A, then everything once more in a shuffled order
        let mut ask_again = |index: usize, phrase: &str, before: &Option<String>, how: &str, queries: &mut usize, fails: &mut Vec<OwnWordsFail>| {
            *queries += 1;
            let words: Vec<&str> = all_tokens[index].iter().map(|t| t.as_str()).collect();
            // only what the property states is judged (a constant carrying all the words, decoding
            // completely); whether it is the same constant as before is C14's and C18's business
            let _ = before;
            let (why, _winner) = own_words_ask(db, phrase, &words, &shipped_set, how.starts_with("in a shuffled"));
            if let Some(why) = why {
                if !fails.iter().any(|f| f.index == index && f.phrase == phrase) {
                    fails.push(OwnWordsFail { index, phrase: phrase.to_string(), why: format!("({how}) {why}") });
                }
            }
        };
        for i in 0..plain.len() {
            let (ia, pa, wa) = plain[i].clone();
            let (ib, pb, wb) = plain[(i + 1) % plain.len()].clone();
            ask_again(ia, &pa, &wa, "before its successor", &mut queries, &mut fails);
            ask_again(ib, &pb, &wb, "after its predecessor", &mut queries, &mut fails);
            ask_again(ia, &pa, &wa, "after its successor", &mut queries, &mut fails);
        }
        let mut order: Vec<usize> = (0..plain.len()).collect();
        anything_sim::rng::Rng::new(seed).shuffle(&mut order);
        for i in order {
            let (ia, pa, wa) = plain[i].clone();
            ask_again(ia, &pa, &wa, "in a shuffled order", &mut queries, &mut fails);
        }
    }
    Event::OwnWords {
        slot,
        constants: s.docs(),
        typeable,
        queries,
        fails,
        winners_hash: format!("{:016x}", fnv1a(&winners)),
    }
}

fn interleave(h: &Arc<H>, db: &anything::Db, iso: Option<&anything::Db>, iso_fresh: Option<Mode>, queries: &[QuerySpec], acts: &[Act], slot: usize) -> Event {
    struct Q<'a, P: 'static> {
        it: Option<anything::Query<'a>>,
        descs: *mut Vec<anything::Description>,
        results: Vec<Res>,
        lookups: Vec<Lookup>,
        steps: usize,
        exhausted: bool,
        parsed: Option<&'static P>,
        parse_error: Option<String>,
        opened: bool,
    }
    let mut qs: Vec<Q<_>> = Vec::new();
    for q in queries {
        let text: &'static str = Box::leak(q.text.clone().into_boxed_str());
        let (parsed, parse_error) = match anything::parse(text) {
            Ok(p) => (Some(&*Box::leak(Box::new(p))), None),
            Err(e) => (None, Some(format!("parse: {e}"))),
        };
        qs.push(Q {
            it: None,
            descs: Box::into_raw(Box::new(Vec::new())),
            results: Vec::new(),
            lookups: Vec::new(),
            steps: 0,
            exhausted: false,
            parsed,
            parse_error,
            opened: false,
        });
    }
    let mut max_open = 0;
    for a in acts {
        match *a {
            Act::Open(i) => {
                if i < qs.len() && !qs[i].opened {
                    qs[i].opened = true;
                    if let Some(p) = qs[i].parsed {
                        let o = if queries[i].describe { anything::Options::default().describe() } else { anything::Options::default() };
                        // SAFETY: the vector is only touched through the query while it is open
                        let d: &'static mut Vec<anything::Description> = unsafe { &mut *qs[i].descs };
                        qs[i].it = Some(anything::query(p, db, o, d));
                    }
                }
            }
            Act::Step(i) => {
                if i < qs.len() {
                    if let Some(it) = qs[i].it.as_mut() {
                        {
                            let mut st = h.st.lock().unwrap();
                            st.lookups.clear();
                            st.record_lookups = true;
                        }
                        let r = it.next();
                        let seen: Vec<Lookup> = {
                            let mut st = h.st.lock().unwrap();
                            st.record_lookups = false;
                            st.lookups.drain(..).collect()
                        };
                        qs[i].lookups.extend(seen);
                        match r {
                            Some(r) => {
                                qs[i].steps += 1;
                                qs[i].results.push(res_of(r, false));
                            }
                            None => {
                                qs[i].exhausted = true;
                            }
                        }
                    }
                }
            }
            Act::Close(i) => {
                if i < qs.len() {
                    qs[i].it = None;
                }
            }
        }
        max_open = max_open.max(qs.iter().filter(|q| q.it.is_some()).count());
    }
    let mut out = Vec::new();
    let mut iso_cache: HashMap<(String, bool), (Vec<Res>, Vec<Desc>)> = HashMap::new();
    for (i, mut q) in qs.into_iter().enumerate() {
        q.it = None;
        // SAFETY: the query borrowing the vector has been dropped
        let descs: Vec<anything::Description> = unsafe { *Box::from_raw(q.descs) };
        let descs: Vec<Desc> = descs
            .into_iter()
            .map(|x| match x {
                anything::Description::Constant(p, c) => desc_of(&p, &c, Some(db)),
            })
            .collect();
        let spec = &queries[i];
        let mut alone = |describe: bool| -> (Vec<Res>, Vec<Desc>) {
            let key = (spec.text.clone(), describe);
            if let Some(r) = iso_cache.get(&key) {
                return r.clone();
            }
            let r = match (iso_fresh, iso) {
                (Some(mode), _) => {
                    // a handle of its own, used for this one evaluation only
                    let (fresh, _info) = open_db(h, usize::MAX, mode, &Plan::default());
                    match fresh {
                        Some(f) => eval_alone(&f, &spec.text, describe, false),
                        None => (vec![Res::Err { msg: "isolation database could not be opened".into(), start: 0, end: 0 }], vec![]),
                    }
                }
                (None, Some(iso)) => eval_alone(iso, &spec.text, describe, false),
                (None, None) => (vec![], vec![]),
            };
            iso_cache.insert(key, r.clone());
            r
        };
        let (iso_results, iso_descs) = alone(spec.describe);
        let (iso_flip_results, _) = alone(!spec.describe);
        let mut results = q.results;
        if let Some(e) = q.parse_error {
            results = vec![Res::Err { msg: e, start: 0, end: 0 }];
        }
        out.push(InterleaveQuery {
            text: spec.text.clone(),
            describe: spec.describe,
            results,
            descs,
            lookups: q.lookups,
            iso_results,
            iso_descs,
            iso_flip_results,
            steps: q.steps,
            exhausted: q.exhausted,
        });
    }
    Event::Interleave { slot, max_open, queries: out }
}

// ---------------------------------------------------------------------------------------------
// C18 with real caller threads

type CallerOut = (usize, Vec<Res>, Vec<Desc>, Vec<Lookup>, usize, Option<String>);

fn caller(h: &H, db: &anything::Db, me: usize, mine: &[usize], queries: &[QuerySpec]) -> Vec<CallerOut> {
    h.thr_register(me);
    let mut out = Vec::new();
    for &qi in mine {
        let Some(spec) = queries.get(qi) else { continue };
        let mut results = Vec::new();
        let mut lookups = Vec::new();
        let mut steps = 0;
        let mut raw: Vec<anything::Description> = Vec::new();
        let mut parse_error = None;
        match anything::parse(&spec.text) {
            Ok(parsed) => {
                let o = if spec.describe { anything::Options::default().describe() } else { anything::Options::default() };
                let mut it = anything::query(&parsed, db, o, &mut raw);
                loop {
                    h.thr_yield(Y_STEP);
                    let r = it.next();
                    lookups.extend(h.thr_take_lookups(me));
                    match r {
                        Some(r) => {
                            steps += 1;
                            results.push(res_of(r, false));
                        }
                        None => break,
                    }
                }
            }
            Err(e) => parse_error = Some(format!("parse: {e}")),
        }
        let descs: Vec<Desc> = raw
            .into_iter()
            .map(|x| match x {
                anything::Description::Constant(p, c) => desc_of(&p, &c, Some(db)),
            })
            .collect();
        out.push((qi, results, descs, lookups, steps, parse_error));
    }
    h.thr_finish(me);
    out
}

/// Compile-time dispatch on whether the database type of the tree under test is `Sync` (a tree where
/// it is not cannot be called from several threads at all, and must not break the harness build).
struct Probe<'a, T>(&'a T);
trait AsDb {
    fn as_db(&self) -> &anything::Db;
}
impl AsDb for anything::Db {
    fn as_db(&self) -> &anything::Db {
        self
    }
}
trait ViaThreads {
    fn run_callers(&self, h: &Arc<H>, queries: &[QuerySpec], threads: &[Vec<usize>]) -> Option<Vec<CallerOut>>;
    /// run `open` on this thread while another thread asks this database after `ask_after_ms`
    fn ask_beside(&self, s: &shipped::Shipped, only: &Option<Vec<usize>>, slot: usize, ask_after_ms: u64, open: &mut dyn FnMut()) -> Option<Event>;
}
impl<'a, T: Sync + AsDb> ViaThreads for Probe<'a, T> {
    fn run_callers(&self, h: &Arc<H>, queries: &[QuerySpec], threads: &[Vec<usize>]) -> Option<Vec<CallerOut>> {
        let shared: &T = self.0;
        let n = threads.len();
        let mut all = Vec::new();
        std::thread::scope(|s| {
            let handles: Vec<_> = threads
                .iter()
                .enumerate()
                .map(|(me, mine)| {
                    let h: &H = h;
                    s.spawn(move || caller(h, shared.as_db(), me, mine, queries))
                })
                .collect();
            // wait until every caller has registered and parked, then hand out the first turn
            {
                let mut st = h.st.lock().unwrap();
                loop {
                    let ready = st.thr.ids.len() == n && st.thr.parked.iter().all(|p| *p);
                    if ready || st.thr.broken {
                        break;
                    }
                    let (g, t) = h.cv.wait_timeout(st, THR_WATCHDOG).unwrap();
                    st = g;
                    if t.timed_out() {
                        st.thr.broken = true;
                    }
                }
                if !st.thr.broken {
                    H::thr_pick(&mut st.thr, None);
                }
                h.cv.notify_all();
            }
            for hd in handles {
                if let Ok(v) = hd.join() {
                    all.extend(v);
                }
            }
        });
        Some(all)
    }

    fn ask_beside(&self, s: &shipped::Shipped, only: &Option<Vec<usize>>, slot: usize, ask_after_ms: u64, open: &mut dyn FnMut()) -> Option<Event> {
        let shared: &T = self.0;
        let mut ev = None;
        std::thread::scope(|sc| {
            let asker = sc.spawn(move || {
                std::thread::sleep(Duration::from_millis(ask_after_ms));
                // first a phrase that matches nothing and one the search engine's parser rejects: a miss
                // and an error are ordinary answers and leave the handle as it was
                let _ = eval_alone(shared.as_db(), "zzzqx krypton", true, false);
                let _ = eval_alone(shared.as_db(), "NOT", false, false);
                own_words(shared.as_db(), s, Perms::Identity, only, None, slot)
            });
            open();
            ev = asker.join().ok();
        });
        ev
    }
}
trait ViaNothing {
    fn run_callers(&self, _h: &Arc<H>, _queries: &[QuerySpec], _threads: &[Vec<usize>]) -> Option<Vec<CallerOut>> {
        None
    }
    fn ask_beside(&self, _s: &shipped::Shipped, _only: &Option<Vec<usize>>, _slot: usize, _ask_after_ms: u64, _open: &mut dyn FnMut()) -> Option<Event> {
        None
    }
}
impl<'a, T> ViaNothing for &Probe<'a, T> {}

fn threads_op(h: &Arc<H>, db: &anything::Db, iso_fresh: Option<Mode>, queries: &[QuerySpec], threads: &[Vec<usize>], schedule: &[u8], slot: usize) -> Vec<Event> {
    let n = threads.len();
    {
        let mut st = h.st.lock().unwrap();
        st.thr = Thr { active: true, parked: vec![false; n], done: vec![false; n], lookups: vec![Vec::new(); n], schedule: schedule.to_vec(), ..Thr::default() };
    }
    // method resolution picks the threaded implementation exactly when `Db: Sync`
    let outs = (&Probe(db)).run_callers(h, queries, threads);
    let (yields, switches, inside_lookup, trace_hash, uncontrolled) = {
        let mut st = h.st.lock().unwrap();
        st.thr.active = false;
        h.cv.notify_all();
        (st.thr.yields, st.thr.switches, st.thr.inside_lookup, format!("{:016x}", fnv1a(&st.thr.trace)), st.thr.broken)
    };
    let Some(outs) = outs else {
        return vec![Event::Threads { slot, threads: n, yields: 0, switches: 0, inside_lookup: 0, trace_hash: String::new(), uncontrolled: false, skipped: Some("the database type is not Sync in this tree".into()) }];
    };
    let mut evs = vec![Event::Threads { slot, threads: n, yields, switches, inside_lookup, trace_hash, uncontrolled, skipped: None }];
    let mut by_query: HashMap<usize, CallerOut> = HashMap::new();
    for o in outs {
        by_query.insert(o.0, o);
    }
    let mut iso_cache: HashMap<(String, bool), (Vec<Res>, Vec<Desc>)> = HashMap::new();
    let mut out = Vec::new();
    for (qi, spec) in queries.iter().enumerate() {
        let Some((_, results, descs, lookups, steps, parse_error)) = by_query.remove(&qi) else { continue };
        let mut alone = |describe: bool| -> (Vec<Res>, Vec<Desc>) {
            let key = (spec.text.clone(), describe);
            if let Some(r) = iso_cache.get(&key) {
                return r.clone();
            }
            let r = match iso_fresh {
                Some(mode) => {
                    let (fresh, _info) = open_db(h, usize::MAX, mode, &Plan::default());
                    match fresh {
                        Some(f) => eval_alone(&f, &spec.text, describe, false),
                        None => (vec![Res::Err { msg: "isolation database could not be opened".into(), start: 0, end: 0 }], vec![]),
                    }
                }
                None => (vec![], vec![]),
            };
            iso_cache.insert(key, r.clone());
            r
        };
        let (iso_results, iso_descs) = alone(spec.describe);
        let (iso_flip_results, _) = alone(!spec.describe);
        let results = match parse_error {
            Some(e) => vec![Res::Err { msg: e, start: 0, end: 0 }],
            None => results,
        };
        out.push(InterleaveQuery { text: spec.text.clone(), describe: spec.describe, results, descs, lookups, iso_results, iso_descs, iso_flip_results, steps, exhausted: true });
    }
    evs.push(Event::Interleave { slot, max_open: n, queries: out });
    evs
}

fn main() {
    let args: Vec<String> = std::env::args().collect();
    if args.len() != 3 {
        eprintln!("usage: simnode <script.json> <log.jsonl>");
        std::process::exit(2);
    }
    let script: Session = match std::fs::read_to_string(&args[1]).map_err(|e| e.to_string()).and_then(|t| serde_json::from_str(&t).map_err(|e| e.to_string())) {
        Ok(s) => s,
        Err(e) => {
            eprintln!("simnode: bad script {}: {e}", args[1]);
            std::process::exit(2);
        }
    };
    let log = match std::fs::File::create(&args[2]) {
        Ok(f) => f,
        Err(e) => {
            eprintln!("simnode: cannot create {}: {e}", args[2]);
            std::process::exit(2);
        }
    };
    let h = Arc::new(H {
        delay: Mutex::new(None),
        fail_once: Mutex::new(None),
        no_producer_gate: std::sync::atomic::AtomicBool::new(false),
        st: Mutex::new(St::default()),
        cv: Condvar::new(),
        faults: script.faults.clone(),
        expected_docs: script.expected_docs,
        log: Mutex::new(log),
    });
    if std::env::var_os("RUST_LOG").is_some() {
        // the same logger as the real program (it writes to stderr, which nobody judges)
        let _ = pretty_env_logger::try_init();
    }
    anything::verif::install(h.clone());
    h.st.lock().unwrap().prod.main = Some(std::thread::current().id());
    {
        let h2 = h.clone();
        let _ = std::thread::Builder::new().name("sim-producers".into()).spawn(move || h2.producer_scheduler());
    }

    let cpus_seen = unsafe {
        let mut set: libc::cpu_set_t = std::mem::zeroed();
        if libc::sched_getaffinity(0, std::mem::size_of::<libc::cpu_set_t>(), &mut set) == 0 {
            libc::CPU_COUNT(&set) as usize
        } else {
            0
        }
    };
    emit(&h.log, &Event::Start { cpus_seen });

    let mut shipped_cache: Option<shipped::Shipped> = None;
    let mut slots: Vec<Option<anything::Db>> = Vec::new();
    let mut failed_open = false;
    for op in &script.ops {
        match op {
            Op::Open { slot, mode, plan } => {
                let (db, info) = open_db(&h, *slot, *mode, plan);
                if db.is_none() {
                    failed_open = true;
                }
                emit(&h.log, &Event::Build(info));
                while slots.len() <= *slot {
                    slots.push(None);
                }
                slots[*slot] = db;
            }
            Op::Ask { slot, phrases, file, subset, detail } => {
                let Some(Some(db)) = slots.get(*slot) else { continue };
                let phrases = match load_phrases(phrases, file, subset) {
                    Ok(p) => p,
                    Err(e) => {
                        emit(&h.log, &Event::HarnessError { what: e });
                        std::process::exit(2);
                    }
                };
                let mut answers = Vec::with_capacity(phrases.len());
                for q in &phrases {
                    let (results, descs) = eval_alone(db, q, true, *detail);
                    answers.push(Answer { q: q.clone(), results, descs });
                }
                emit(&h.log, &Event::Answers { slot: *slot, count: answers.len(), answers });
            }
            Op::OwnWords { slot, perms, only, again } => {
                let Some(Some(db)) = slots.get(*slot) else { continue };
                if shipped_cache.is_none() {
                    match shipped::load(&script.repo) {
                        Ok(s) => shipped_cache = Some(s),
                        Err(e) => {
                            emit(&h.log, &Event::HarnessError { what: e });
                            std::process::exit(2);
                        }
                    }
                }
                let ev = own_words(db, shipped_cache.as_ref().unwrap(), *perms, only, *again, *slot);
                emit(&h.log, &ev);
            }
            Op::Interleave { slot, queries, acts, iso_slot, iso_fresh } => {
                let Some(Some(db)) = slots.get(*slot) else { continue };
                let iso = slots.get(*iso_slot).and_then(|s| s.as_ref());
                if iso.is_none() && iso_fresh.is_none() {
                    continue;
                }
                let ev = interleave(&h, db, iso, *iso_fresh, queries, acts, *slot);
                emit(&h.log, &ev);
            }
            Op::Threads { slot, queries, threads, schedule, iso_fresh } => {
                let Some(Some(db)) = slots.get(*slot) else { continue };
                for ev in threads_op(&h, db, *iso_fresh, queries, threads, schedule, *slot) {
                    emit(&h.log, &ev);
                }
            }
            Op::OpenBeside { slot, watch_slot, hold_point, hold_ms, ask_after_ms, only, fail_point, advance_s } => {
                *h.fail_once.lock().unwrap() = fail_point.clone();
                if shipped_cache.is_none() {
                    match shipped::load(&script.repo) {
                        Ok(s) => shipped_cache = Some(s),
                        Err(e) => {
                            emit(&h.log, &Event::HarnessError { what: e });
                            std::process::exit(2);
                        }
                    }
                }
                // the next open has to recreate the index: the metadata goes
                if let Ok(x) = std::env::var("XDG_DATA_HOME") {
                    let _ = std::fs::remove_file(std::path::Path::new(&x).join("facts").join("meta.json"));
                }
                *h.delay.lock().unwrap() = Some((hold_point.clone(), *hold_ms));
                h.no_producer_gate.store(true, std::sync::atomic::Ordering::SeqCst);
                let mut opened: Option<(Option<anything::Db>, BuildInfo)> = None;
                let mut ev = None;
                if let Some(Some(watched)) = slots.get(*watch_slot) {
                    let mut open = || opened = Some(open_db(&h, *slot, Mode::Disk, &Plan::default()));
                    ev = (&Probe(watched)).ask_beside(shipped_cache.as_ref().unwrap(), only, *watch_slot, *ask_after_ms, &mut open);
                }
                h.no_producer_gate.store(false, std::sync::atomic::Ordering::SeqCst);
                *h.delay.lock().unwrap() = None;
                if opened.is_none() {
                    // not run beside anything (no watched database, or its type is not Sync): a plain open
                    opened = Some(open_db(&h, *slot, Mode::Disk, &Plan::default()));
                }
                *h.fail_once.lock().unwrap() = None;
                if let Some(ev) = ev {
                    emit(&h.log, &ev);
                }
                if *advance_s > 0 {
                    // let that much time pass on the clocks the program reads, then ask the watched handle again
                    unsafe {
                        let f = libc::dlsym(libc::RTLD_DEFAULT, b"verif_clock_advance\0".as_ptr() as *const libc::c_char);
                        if !f.is_null() {
                            let f: extern "C" fn(i64) = std::mem::transmute(f);
                            f(*advance_s as i64);
                        }
                    }
                    if let Some(Some(watched)) = slots.get(*watch_slot) {
                        let ev = own_words(watched, shipped_cache.as_ref().unwrap(), Perms::Identity, only, None, *watch_slot);
                        emit(&h.log, &ev);
                    }
                }
                if let Some((db, info)) = opened {
                    if db.is_none() && fail_point.is_none() {
                        failed_open = true;
                    }
                    emit(&h.log, &Event::Build(info));
                    while slots.len() <= *slot {
                        slots.push(None);
                    }
                    slots[*slot] = db;
                }
            }
            Op::Drop { slot } => {
                if let Some(s) = slots.get_mut(*slot) {
                    *s = None;
                }
            }
            Op::HoldWriter { ms } => {
                let xdg = std::env::var("XDG_DATA_HOME").unwrap_or_default();
                let index_dir = std::path::Path::new(&xdg).join("facts").join("index");
                let marker = std::path::Path::new(&xdg).join(".verif-holding");
                let res = tantivy::Index::open_in_dir(&index_dir).map_err(|e| e.to_string()).and_then(|ix| ix.writer_with_num_threads(1, 15_000_000).map_err(|e| e.to_string()));
                match res {
                    Ok(w) => {
                        let _ = std::fs::write(&marker, b"");
                        // held until the simulator says so (a file appears), at most `ms`
                        let release = std::path::Path::new(&xdg).join(".verif-release");
                        let t0 = std::time::Instant::now();
                        while !release.exists() && t0.elapsed() < std::time::Duration::from_millis(*ms) {
                            std::thread::sleep(std::time::Duration::from_millis(5));
                        }
                        drop(w);
                        let _ = std::fs::remove_file(&marker);
                        emit(&h.log, &Event::Held { held: true, why: String::new() });
                    }
                    Err(e) => emit(&h.log, &Event::Held { held: false, why: e.lines().next().unwrap_or("").chars().take(120).collect() }),
                }
            }
        }
    }
    emit(&h.log, &Event::End);
    drop(slots);
    std::process::exit(if failed_open { 1 } else { 0 });
}

fn main() {}

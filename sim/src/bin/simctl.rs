//! The simulator: derives every history from VERIF_SEED, runs them (in parallel, each in its own
//! scratch directory), evaluates the oracles, minimises and replays violations, writes evidence.
//!
//! Exit status: 0 held on everything explored, 1 violation (with `VIOLATION property=.. replay=..`),
//! 2 harness error (never a verdict).

use anything_sim::dirstate::{self, Paths, Reference};
use anything_sim::exec::{allowed_cpus, Exit, Launcher};
use anything_sim::gen;
use anything_sim::history::*;
use anything_sim::rng::{derive, fnv1a, Rng};
use anything_sim::script::*;
use anything_sim::shipped;
use anything_sim::shrink::shrink;
use serde_json::{json, Value};
use std::collections::{BTreeMap, BTreeSet, HashSet};
use std::path::{Path, PathBuf};
use std::sync::atomic::{AtomicUsize, Ordering};
use std::sync::mpsc;
use std::time::{Duration, Instant};

const DEFAULT_SEED: u64 = 20260927;

struct Opts {
    cmd: String,
    prop: String,
    tier: String,
    seed: u64,
    jobs: usize,
    repo: String,
    verif: PathBuf,
    out: PathBuf,
    file: Option<String>,
    runs: Option<usize>,
    budget: Option<Duration>,
    alt_bin: Option<PathBuf>,
    alt_repo: Option<String>,
    ver_bin: Option<PathBuf>,
    ver_repo: Option<String>,
    ren_bin: Option<PathBuf>,
    ren_repo: Option<String>,
    base_bin: Option<PathBuf>,
    base_repo: Option<String>,
}

fn parse_opts() -> Opts {
    let args: Vec<String> = std::env::args().skip(1).collect();
    let mut o = Opts {
        cmd: args.first().cloned().unwrap_or_default(),
        prop: String::new(),
        tier: std::env::var("VERIF_TIER").unwrap_or_else(|_| "quick".into()),
        seed: std::env::var("VERIF_SEED").ok().and_then(|s| s.parse().ok()).unwrap_or(DEFAULT_SEED),
        jobs: std::env::var("VERIF_JOBS").ok().and_then(|s| s.parse().ok()).unwrap_or(0),
        repo: std::env::var("VERIF_REPO").unwrap_or_else(|_| "/repo".into()),
        verif: PathBuf::from(std::env::var("VERIF_DIR").unwrap_or_else(|_| "/verif".into())),
        out: PathBuf::from(std::env::var("VERIF_OUT").unwrap_or_else(|_| std::env::var("VERIF_DIR").unwrap_or_else(|_| "/verif".into()))),
        file: None,
        runs: std::env::var("VERIF_RUNS").ok().and_then(|s| s.parse().ok()),
        budget: std::env::var("VERIF_BUDGET_S").ok().and_then(|s| s.parse().ok()).map(Duration::from_secs),
        alt_bin: std::env::var("VERIF_ALT_BIN").ok().filter(|s| !s.is_empty()).map(PathBuf::from),
        alt_repo: std::env::var("VERIF_ALT_REPO").ok().filter(|s| !s.is_empty()),
        ver_bin: std::env::var("VERIF_VER_BIN").ok().filter(|s| !s.is_empty()).map(PathBuf::from),
        ver_repo: std::env::var("VERIF_VER_REPO").ok().filter(|s| !s.is_empty()),
        ren_bin: std::env::var("VERIF_REN_BIN").ok().filter(|s| !s.is_empty()).map(PathBuf::from),
        ren_repo: std::env::var("VERIF_REN_REPO").ok().filter(|s| !s.is_empty()),
        base_bin: std::env::var("VERIF_BASE_BIN").ok().filter(|s| !s.is_empty()).map(PathBuf::from),
        base_repo: std::env::var("VERIF_BASE_REPO").ok().filter(|s| !s.is_empty()),
    };
    let mut i = 1;
    while i < args.len() {
        match args[i].as_str() {
            "--prop" => {
                o.prop = args.get(i + 1).cloned().unwrap_or_default();
                i += 1;
            }
            "--tier" => {
                o.tier = args.get(i + 1).cloned().unwrap_or_default();
                i += 1;
            }
            "--seed" => {
                o.seed = args.get(i + 1).and_then(|s| s.parse().ok()).unwrap_or(o.seed);
                i += 1;
            }
            "--jobs" => {
                o.jobs = args.get(i + 1).and_then(|s| s.parse().ok()).unwrap_or(0);
                i += 1;
            }
            "--runs" => {
                o.runs = args.get(i + 1).and_then(|s| s.parse().ok());
                i += 1;
            }
            other => {
                if o.file.is_none() {
                    o.file = Some(other.to_string());
                }
            }
        }
        i += 1;
    }
    if o.jobs == 0 {
        o.jobs = allowed_cpus().len().clamp(1, 16);
    }
    o
}

/// Where the simulated disks live: a memory file system when there is one (a killed process leaves
/// the same files behind there, and the many fdatasync calls of a rebuild cost nothing), else TMPDIR.
fn scratch_root() -> String {
    if let Ok(s) = std::env::var("VERIF_SCRATCH") {
        return s;
    }
    let shm = Path::new("/dev/shm");
    if shm.is_dir() {
        let probe = shm.join(format!(".verif-probe-{}", std::process::id()));
        if std::fs::write(&probe, b"x").is_ok() {
            let _ = std::fs::remove_file(&probe);
            return "/dev/shm".into();
        }
    }
    std::env::var("TMPDIR").unwrap_or_else(|_| "/tmp".into())
}

/// Is the ptrace injector usable at all (strace present, ptrace and seccomp-bpf permitted)?
fn strace_usable() -> bool {
    std::path::Path::new("/usr/bin/strace").is_file()
        && std::env::var("VERIF_NO_STRACE").is_err()
        && std::process::Command::new("/usr/bin/strace")
            .args(["--seccomp-bpf", "-f", "-qq", "-o", "/dev/null", "-e", "trace=write", "-e", "inject=write:error=ENOSPC:when=65535", "/bin/true"])
            .stdin(std::process::Stdio::null())
            .stdout(std::process::Stdio::null())
            .stderr(std::process::Stdio::null())
            .status()
            .map(|s| s.success())
            .unwrap_or(false)
}

/// Does this strace accept the injection specification (system call and errno names)?
fn inject_spec_ok(call: &str, errno: &str) -> bool {
    std::process::Command::new("/usr/bin/strace")
        .args(["--seccomp-bpf", "-f", "-qq", "-o", "/dev/null", "-e", &format!("trace={call}"), "-e", &format!("inject={call}:error={errno}:when=65535"), "/bin/true"])
        .stdin(std::process::Stdio::null())
        .stdout(std::process::Stdio::null())
        .stderr(std::process::Stdio::null())
        .status()
        .map(|s| s.success())
        .unwrap_or(false)
}

fn harness_fail(msg: &str) -> ! {
    eprintln!("HARNESS-ERROR: {msg}");
    std::process::exit(2);
}

/// Unmount whatever is still mounted below `dir` (full-disk histories mount a tmpfs per history).
fn unmount_below(dir: &Path) {
    let Ok(text) = std::fs::read_to_string("/proc/mounts") else { return };
    let prefix = format!("{}/", dir.display());
    let mut targets: Vec<String> = text.lines().filter_map(|l| l.split(' ').nth(1)).filter(|t| t.starts_with(&prefix)).map(|t| t.replace("\\040", " ")).collect();
    targets.sort_by_key(|t| std::cmp::Reverse(t.len()));
    for t in targets {
        anything_sim::history::tmpfs_umount(Path::new(&t));
    }
}

/// Scratch directories of simulator processes that no longer exist (killed runs): unmount and remove.
fn remove_stale_scratch(root: &str) {
    let Ok(rd) = std::fs::read_dir(root) else { return };
    for e in rd.filter_map(|e| e.ok()) {
        let name = e.file_name().to_string_lossy().to_string();
        let Some(pid) = name.strip_prefix("verif-sim-").and_then(|p| p.parse::<u32>().ok()) else { continue };
        if !Path::new(&format!("/proc/{pid}")).exists() {
            unmount_below(&e.path());
            let _ = std::fs::remove_dir_all(e.path());
        }
    }
}

struct Scratch(PathBuf);
impl Drop for Scratch {
    fn drop(&mut self) {
        unmount_below(&self.0);
        let _ = std::fs::remove_dir_all(&self.0);
    }
}

/// Build the per-invocation context: shipped data, clean reference start, foreign index, phrase files.
/// Err(violation text) when a clean start of the tree under test does not even produce a complete index.
fn setup(o: &Opts, scratch: &Path, only_complete_reference: bool) -> Result<Ctx, String> {
    let shipped = shipped::load(&o.repo).unwrap_or_else(|e| harness_fail(&format!("cannot decode shipped data: {e}")));
    if shipped.constants.is_empty() {
        harness_fail("no shipped constants found");
    }
    let bin_dir = std::env::current_exe().ok().and_then(|p| p.parent().map(|p| p.to_path_buf())).unwrap_or_else(|| harness_fail("no exe dir"));
    for b in ["simnode", "any"] {
        if !bin_dir.join(b).is_file() {
            harness_fail(&format!("{} missing; run ./check setup", bin_dir.join(b).display()));
        }
    }
    let launcher = Launcher { bin_dir, allowed: allowed_cpus(), child_timeout: Duration::from_secs(180) };
    std::fs::create_dir_all(scratch).unwrap_or_else(|e| harness_fail(&format!("scratch: {e}")));
    let expected_docs = shipped.docs();
    if !shipped.refused.is_empty() {
        eprintln!("simctl: the library of this tree refuses to decode {} shipped constant(s) (e.g. {}); their words are asked for all the same", shipped.refused.len(), shipped.refused[0].why);
    }

    // phrases
    let mut qprime: Vec<String> = Vec::new();
    for toks in &shipped.all_tokens() {
        let words: Vec<&str> = toks.iter().map(|t| t.as_str()).collect();
        if let Some(f) = shipped::typed_forms(&words).into_iter().next() {
            if !qprime.contains(&f) {
                qprime.push(f);
            }
        }
    }
    // short prefixes shared by words of facts from different asset files ("pe": Perdita / Peru): where
    // they tie, the order in which the assets were indexed decides the answer
    let ties = shipped::shared_prefixes(&shipped, 3, 60);
    let mut qprime_ties = 0;
    for f in ties {
        if !qprime.contains(&f) {
            qprime.push(f);
            qprime_ties += 1;
        }
    }
    for f in dirstate::FAKE_PHRASES {
        qprime.push(f.to_string());
    }
    let (q14, q14_keep) = shipped::c14_queries(&shipped);
    let qprime_file = scratch.join("qprime.json");
    let q14_file = scratch.join("q14.json");
    std::fs::write(&qprime_file, serde_json::to_vec(&qprime).unwrap()).unwrap_or_else(|e| harness_fail(&e.to_string()));
    std::fs::write(&q14_file, serde_json::to_vec(&q14).unwrap()).unwrap_or_else(|e| harness_fail(&e.to_string()));

    // foreign index
    let foreign = scratch.join("foreign-index");
    dirstate::build_foreign(&foreign, &shipped, false).unwrap_or_else(|e| harness_fail(&format!("foreign index: {e}")));
    let foreign_schema = scratch.join("foreign-schema-index");
    dirstate::build_foreign(&foreign_schema, &shipped, true).unwrap_or_else(|e| harness_fail(&format!("foreign index: {e}")));
    let foreign_same = scratch.join("foreign-same-shape-index");
    dirstate::build_foreign_same_shape(&foreign_same, &shipped).unwrap_or_else(|e| harness_fail(&format!("foreign index: {e}")));

    // clean reference start (one CPU, canonical plan)
    let gold = Paths::new(scratch.join("gold").join("xdg"));
    dirstate::wipe(&gold).unwrap_or_else(|e| harness_fail(&e.to_string()));
    let session = Session {
        cpus: 1,
        faults: vec![],
        ops: vec![Op::Open { slot: 0, mode: Mode::Disk, plan: Plan::default() }],
        expected_docs,
        repo: o.repo.clone(),
        alt: false,
        ver: false,
        ren: false,
        base: false,
        env: vec![],
        rand: 1,
    };
    let out = launcher.simnode(&gold, &scratch.join("gold"), "gold", &session, 0);
    if let Some(e) = out.harness_error() {
        harness_fail(&format!("reference start: {e}"));
    }
    let info = dirstate::inspect(&gold, &shipped);
    let ok_exit = out.exit == (Exit::Code { code: 0 });
    let (version, hash) = match &info.meta {
        dirstate::MetaInfo::Parsed { version: Some(v), hash: Some(h) } => (v.clone(), h.clone()),
        _ => (String::new(), String::new()),
    };
    let complete = matches!(&info.index, dirstate::IndexInfo::Open { shipped: true, .. });
    let problem = if !ok_exit || info.meta_text.as_deref().unwrap_or("").is_empty() || !complete {
        Some(format!(
            "a clean first start on an empty data directory ended with {:?} and left metadata {:?} over index {:?}; stderr: {}",
            out.exit,
            info.meta,
            info.index,
            out.stderr.lines().last().unwrap_or("")
        ))
    } else {
        None
    };
    if let (Some(p), true) = (&problem, only_complete_reference) {
        return Err(p.clone());
    }
    if let Some(p) = &problem {
        println!("simctl: note: {p} (this is judged by C15; continuing with what the tree builds)");
    }
    if !gold.index().is_dir() {
        let _ = std::fs::create_dir_all(gold.index());
    }
    let gold_index = scratch.join("gold-index");
    dirstate::copy_dir(&gold.index(), &gold_index).unwrap_or_else(|e| harness_fail(&e.to_string()));
    let reference = Reference { meta_text: info.meta_text.clone().unwrap_or_default(), version, hash, gold_index, foreign_index: foreign, foreign_schema_index: foreign_schema, foreign_same_shape_index: foreign_same };
    let mut alt = None;
    if let (Some(bin), Some(repo)) = (&o.alt_bin, &o.alt_repo) {
        if bin.join("simnode").is_file() {
            let ashipped = shipped::load(repo).unwrap_or_else(|e| harness_fail(&format!("alternative data: {e}")));
            let alauncher = Launcher { bin_dir: bin.clone(), allowed: allowed_cpus(), child_timeout: Duration::from_secs(180) };
            let agold = Paths::new(scratch.join("alt-gold").join("xdg"));
            dirstate::wipe(&agold).unwrap_or_else(|e| harness_fail(&e.to_string()));
            let asession = Session { cpus: 1, faults: vec![], ops: vec![Op::Open { slot: 0, mode: Mode::Disk, plan: Plan::default() }], expected_docs: ashipped.docs(), repo: repo.clone(), alt: true, ver: false, ren: false, base: false, env: vec![], rand: 1 };
            let aout = alauncher.simnode(&agold, &scratch.join("alt-gold"), "gold", &asession, 0);
            let ainfo = dirstate::inspect(&agold, &ashipped);
            let (av, ah) = match &ainfo.meta {
                dirstate::MetaInfo::Parsed { version: Some(v), hash: Some(h) } => (v.clone(), h.clone()),
                _ => (String::new(), String::new()),
            };
            if aout.harness_error().is_none() && aout.exit == (Exit::Code { code: 0 }) {
                let agold_index = scratch.join("alt-gold-index");
                dirstate::copy_dir(&agold.index(), &agold_index).unwrap_or_else(|e| harness_fail(&e.to_string()));
                let areference = Reference {
                    meta_text: ainfo.meta_text.clone().unwrap_or_default(),
                    version: av,
                    hash: ah,
                    gold_index: agold_index,
                    foreign_index: reference.foreign_index.clone(),
                    foreign_schema_index: reference.foreign_schema_index.clone(),
                    foreign_same_shape_index: reference.foreign_same_shape_index.clone(),
                };
                alt = Some(Box::new(Alt { launcher: alauncher, repo: repo.clone(), shipped: ashipped, reference: areference }));
            } else {
                println!("simctl: note: the alternative build did not complete a clean start; two-build histories are skipped");
            }
        }
    }
    let mut ver = None;
    if let (Some(bin), Some(repo)) = (&o.ver_bin, &o.ver_repo) {
        if bin.join("simnode").is_file() {
            let ashipped = shipped::load(repo).unwrap_or_else(|e| harness_fail(&format!("other-version data: {e}")));
            let alauncher = Launcher { bin_dir: bin.clone(), allowed: allowed_cpus(), child_timeout: Duration::from_secs(180) };
            let agold = Paths::new(scratch.join("ver-gold").join("xdg"));
            dirstate::wipe(&agold).unwrap_or_else(|e| harness_fail(&e.to_string()));
            let asession = Session { cpus: 1, faults: vec![], ops: vec![Op::Open { slot: 0, mode: Mode::Disk, plan: Plan::default() }], expected_docs: ashipped.docs(), repo: repo.clone(), alt: false, ver: true, ren: false, base: false, env: vec![], rand: 1 };
            let aout = alauncher.simnode(&agold, &scratch.join("ver-gold"), "gold", &asession, 0);
            let ainfo = dirstate::inspect(&agold, &ashipped);
            let (av, ah) = match &ainfo.meta {
                dirstate::MetaInfo::Parsed { version: Some(v), hash: Some(h) } => (v.clone(), h.clone()),
                _ => (String::new(), String::new()),
            };
            if aout.harness_error().is_none() && aout.exit == (Exit::Code { code: 0 }) {
                let agold_index = scratch.join("ver-gold-index");
                dirstate::copy_dir(&agold.index(), &agold_index).unwrap_or_else(|e| harness_fail(&e.to_string()));
                let areference = Reference {
                    meta_text: ainfo.meta_text.clone().unwrap_or_default(),
                    version: av,
                    hash: ah,
                    gold_index: agold_index,
                    foreign_index: reference.foreign_index.clone(),
                    foreign_schema_index: reference.foreign_schema_index.clone(),
                    foreign_same_shape_index: reference.foreign_same_shape_index.clone(),
                };
                ver = Some(Box::new(Alt { launcher: alauncher, repo: repo.clone(), shipped: ashipped, reference: areference }));
            } else {
                println!("simctl: note: the other-version build did not complete a clean start; other-version histories are skipped");
            }
        }
    }
    let mut ren = None;
    if let (Some(bin), Some(repo)) = (&o.ren_bin, &o.ren_repo) {
        if bin.join("simnode").is_file() {
            let ashipped = shipped::load(repo).unwrap_or_else(|e| harness_fail(&format!("renamed-assets data: {e}")));
            let alauncher = Launcher { bin_dir: bin.clone(), allowed: allowed_cpus(), child_timeout: Duration::from_secs(180) };
            let agold = Paths::new(scratch.join("ren-gold").join("xdg"));
            dirstate::wipe(&agold).unwrap_or_else(|e| harness_fail(&e.to_string()));
            let asession = Session { cpus: 1, faults: vec![], ops: vec![Op::Open { slot: 0, mode: Mode::Disk, plan: Plan::default() }], expected_docs: ashipped.docs(), repo: repo.clone(), alt: false, ver: false, ren: true, base: false, env: vec![], rand: 1 };
            let aout = alauncher.simnode(&agold, &scratch.join("ren-gold"), "gold", &asession, 0);
            let ainfo = dirstate::inspect(&agold, &ashipped);
            let (av, ah) = match &ainfo.meta {
                dirstate::MetaInfo::Parsed { version: Some(v), hash: Some(h) } => (v.clone(), h.clone()),
                _ => (String::new(), String::new()),
            };
            if aout.harness_error().is_none() && aout.exit == (Exit::Code { code: 0 }) {
                let agold_index = scratch.join("ren-gold-index");
                dirstate::copy_dir(&agold.index(), &agold_index).unwrap_or_else(|e| harness_fail(&e.to_string()));
                let areference = Reference {
                    meta_text: ainfo.meta_text.clone().unwrap_or_default(),
                    version: av,
                    hash: ah,
                    gold_index: agold_index,
                    foreign_index: reference.foreign_index.clone(),
                    foreign_schema_index: reference.foreign_schema_index.clone(),
                    foreign_same_shape_index: reference.foreign_same_shape_index.clone(),
                };
                ren = Some(Box::new(Alt { launcher: alauncher, repo: repo.clone(), shipped: ashipped, reference: areference }));
            } else {
                println!("simctl: note: the renamed-assets build did not complete a clean start; its histories are skipped");
            }
        }
    }
    let mut base = None;
    if let (Some(bin), Some(repo)) = (&o.base_bin, &o.base_repo) {
        if bin.join("simnode").is_file() {
            let ashipped = shipped::load(repo).unwrap_or_else(|e| harness_fail(&format!("baseline data: {e}")));
            let alauncher = Launcher { bin_dir: bin.clone(), allowed: allowed_cpus(), child_timeout: Duration::from_secs(180) };
            let agold = Paths::new(scratch.join("base-gold").join("xdg"));
            dirstate::wipe(&agold).unwrap_or_else(|e| harness_fail(&e.to_string()));
            let asession = Session { cpus: 1, faults: vec![], ops: vec![Op::Open { slot: 0, mode: Mode::Disk, plan: Plan::default() }], expected_docs: ashipped.docs(), repo: repo.clone(), alt: false, ver: false, ren: false, base: true, env: vec![], rand: 1 };
            let aout = alauncher.simnode(&agold, &scratch.join("base-gold"), "gold", &asession, 0);
            let ainfo = dirstate::inspect(&agold, &ashipped);
            let (av, ah) = match &ainfo.meta {
                dirstate::MetaInfo::Parsed { version: Some(v), hash: Some(h) } => (v.clone(), h.clone()),
                _ => (String::new(), String::new()),
            };
            if aout.harness_error().is_none() && aout.exit == (Exit::Code { code: 0 }) {
                let agold_index = scratch.join("base-gold-index");
                dirstate::copy_dir(&agold.index(), &agold_index).unwrap_or_else(|e| harness_fail(&e.to_string()));
                let areference = Reference {
                    meta_text: ainfo.meta_text.clone().unwrap_or_default(),
                    version: av,
                    hash: ah,
                    gold_index: agold_index,
                    foreign_index: reference.foreign_index.clone(),
                    foreign_schema_index: reference.foreign_schema_index.clone(),
                    foreign_same_shape_index: reference.foreign_same_shape_index.clone(),
                };
                base = Some(Box::new(Alt { launcher: alauncher, repo: repo.clone(), shipped: ashipped, reference: areference }));
            } else {
                println!("simctl: note: the baseline build did not complete a clean start; its histories are skipped");
            }
        }
    }
    Ok(Ctx {
        caps_strace: strace_usable(),
        base,
        ren,
        qprime_ties,
        alt,
        ver,
        launcher,
        repo: o.repo.clone(),
        shipped,
        reference,
        scratch: scratch.to_path_buf(),
        expected_docs,
        qprime,
        qprime_file,
        q14,
        q14_keep,
        q14_file,
    })
}

// ---------------------------------------------------------------------------------------------
// statistics / evidence

#[derive(Default)]
struct Stats {
    evaluations: usize,
    starts: usize,
    cli_runs: usize,
    hook_events: usize,
    lookups_answered: usize,
    faults_fired: BTreeMap<String, usize>,
    fault_sites_fired: BTreeSet<String>,
    faults_configured: usize,
    faults_not_reached: usize,
    distinct_nontrivial: HashSet<u64>,
    distinct_traces: HashSet<u64>,
    partitions: BTreeSet<String>,
    workers_hist: BTreeMap<usize, usize>,
    cpus_seen_hist: BTreeMap<usize, usize>,
    switches_hist: BTreeMap<String, usize>,
    dir_classes: BTreeSet<String>,
    depth_hist: BTreeMap<usize, usize>,
    tainted_builds: usize,
    uncontrolled_builds: usize,
    builds: usize,
    rebuilds: usize,
    probes: BTreeMap<String, usize>,
    cells_fired: BTreeSet<String>,
    cells_unreachable: BTreeSet<String>,
    samples: Vec<Value>,
    harness_errors: Vec<String>,
    max_open: usize,
    own_word_queries: usize,
    index_states: BTreeSet<String>,
    step_orders: HashSet<u64>,
}

fn bucket(n: usize) -> String {
    match n {
        0 => "0".into(),
        1..=3 => "1-3".into(),
        4..=15 => "4-15".into(),
        16..=63 => "16-63".into(),
        64..=255 => "64-255".into(),
        _ => "256+".into(),
    }
}

fn compact_history(h: &History) -> Value {
    let mut v = serde_json::to_value(h).unwrap_or(Value::Null);
    fn elide(v: &mut Value) {
        match v {
            Value::Object(m) => {
                for (k, x) in m.iter_mut() {
                    if (k == "subset" || k == "phrases" || k == "bursts" || k == "acts") && x.as_array().map(|a| a.len() > 12).unwrap_or(false) {
                        let n = x.as_array().unwrap().len();
                        let head: Vec<Value> = x.as_array().unwrap().iter().take(6).cloned().collect();
                        *x = json!({"elided": n, "first": head});
                    } else {
                        elide(x);
                    }
                }
            }
            Value::Array(a) => a.iter_mut().for_each(elide),
            _ => {}
        }
    }
    elide(&mut v);
    v
}

fn absorb(st: &mut Stats, ctx: &Ctx, idx: usize, h: &History, trace: &Trace, vs: &[Violation]) {
    st.evaluations += 1;
    st.harness_errors.extend(trace.harness_errors.iter().cloned());
    st.distinct_traces.insert(digest(trace));
    let mut fired = 0;
    let mut build_keys: Vec<String> = Vec::new();
    let mut depth = 0;
    let mut outcome = Vec::new();
    let mut nontrivial = false;
    for (i, s) in h.steps.iter().enumerate() {
        let Some(so) = trace.steps.get(i) else { continue };
        st.dir_classes.insert(so.dir.class(ctx.side_b(so.build).1));
        match s {
            Step::Fabricate { state } => {
                outcome.push(json!({"step": i, "fabricated": so.dir.class(ctx.side_b(so.build).1)}));
                if state.data_dir {
                    nontrivial = nontrivial || h.property == "C15";
                }
            }
            Step::Damage { .. } => outcome.push(json!({"step": i, "damaged_to": so.dir.class(ctx.side_b(so.build).1)})),
            Step::Disk { free_pages, free_inodes } => outcome.push(json!({"step": i, "disk_free_pages": free_pages, "disk_free_inodes": free_inodes})),
            Step::Start { session } | Step::Contended { session, .. } => {
                st.starts += 1;
                if matches!(s, Step::Contended { .. }) {
                    let held = so.child.as_ref().map(|c| c.events.iter().any(|e| matches!(e, Event::Held { held: true, .. }))).unwrap_or(false);
                    *st.probes.entry(format!("process-starts-beside-another-instance ({})", if held { "writer lock held" } else { "nothing to hold" })).or_default() += 1;
                }
                if shim_built() {
                    let r = if session.rand == 0 { anything_sim::history::step_rand(h, i) } else { session.rand };
                    let off = anything_sim::exec::clock_offset_of(r);
                    if off != 0 {
                        *st.probes.entry(format!("process-starts-under-a-wall-clock-offset ({})", if off > 0 { "ahead" } else { "behind" })).or_default() += 1;
                    }
                }
                let Some(c) = &so.child else { continue };
                let configured = session.faults.iter().filter(|f| !matches!(f, Fault::ShortWrites { .. })).count();
                st.faults_configured += configured;
                if configured > 0 {
                    depth += 1;
                }
                let label = session.faults.iter().map(gen::fault_label).collect::<Vec<_>>().join("+");
                if let Some((kind, point, _k)) = c.fault_fired() {
                    fired += 1;
                    *st.faults_fired.entry(kind.clone()).or_default() += 1;
                    st.fault_sites_fired.insert(format!("{kind}@{point}"));
                    let prior = if i == 0 { "meta[absent] index[absent]".to_string() } else { trace.steps[i - 1].dir.class(ctx.side_b(trace.steps[i - 1].build).1) };
                    st.cells_fired.insert(format!("{prior} x {kind}@{point}"));
                } else if configured > 0 {
                    st.faults_not_reached += 1;
                    let prior = if i == 0 { "meta[absent] index[absent]".to_string() } else { trace.steps[i - 1].dir.class(ctx.side_b(trace.steps[i - 1].build).1) };
                    for f in &session.faults {
                        if let Fault::Kill { point, .. } | Fault::Fail { point, .. } | Fault::FailKind { point, .. } = f {
                            st.cells_unreachable.insert(format!("{prior} x {point}"));
                        }
                    }
                }
                if session.faults.iter().any(|f| matches!(f, Fault::ShortWrites { .. })) && c.events.iter().any(|e| matches!(e, Event::Build(b) if b.points.iter().any(|(p, _)| p == "meta.write"))) {
                    *st.faults_fired.entry("short-writes".into()).or_default() += 1;
                    fired += 1;
                }
                for b in builds(c) {
                    st.builds += 1;
                    st.hook_events += b.points.iter().map(|p| p.1).sum::<usize>();
                    if b.rebuilt {
                        st.rebuilds += 1;
                        *st.workers_hist.entry(b.workers).or_default() += 1;
                        *st.switches_hist.entry(bucket(b.switches)).or_default() += 1;
                        if b.controlled {
                            st.partitions.insert(format!("{}:{}", b.workers, b.assign_hash));
                        } else {
                            st.uncontrolled_builds += 1;
                        }
                        if !b.taint.is_empty() {
                            st.tainted_builds += 1;
                            *st.probes.entry(format!("taint:{}", b.taint.join(","))).or_default() += 1;
                        }
                        if b.points.iter().any(|(p, _)| p == "index.removed") {
                            *st.probes.entry("rebuild-removed-an-existing-index-directory".into()).or_default() += 1;
                        }
                    } else if b.mode == "disk" && b.error.is_none() {
                        *st.probes.entry("reopen-without-rebuild".into()).or_default() += 1;
                    }
                    if b.producers > 0 {
                        *st.probes.entry(format!("builds-fed-by-{}-producer-threads", b.producers)).or_default() += 1;
                        *st.probes.entry("producer-scheduling-decisions".into()).or_default() += b.producer_decisions;
                        *st.probes.entry("producer-switches".into()).or_default() += b.producer_switches;
                        if b.producers_controlled {
                            st.partitions.insert(format!("feed:{}:{}", b.producers, b.feed_hash));
                        } else {
                            *st.probes.entry("builds-with-uncontrolled-producers".into()).or_default() += 1;
                        }
                    }
                    build_keys.push(format!("{}:{}:{}:{}:{}", b.mode, b.rebuilt, b.workers, b.assign_hash, b.feed_hash));
                }
                for e in &c.events {
                    match e {
                        Event::Start { cpus_seen } => *st.cpus_seen_hist.entry(*cpus_seen).or_default() += 1,
                        Event::Answers { count, .. } => st.lookups_answered += count,
                        Event::OwnWords { queries, winners_hash, .. } => {
                            st.own_word_queries += queries;
                            st.index_states.insert(format!("{}|{}", h.label.split('(').next().unwrap_or("").trim(), winners_hash));
                            nontrivial = nontrivial || *queries > 0;
                        }
                        Event::Threads { threads, yields, switches, inside_lookup, trace_hash, uncontrolled, skipped, .. } => {
                            if let Some(why) = skipped {
                                *st.probes.entry(format!("caller-threads-skipped: {why}")).or_default() += 1;
                            } else {
                                *st.probes.entry("caller-thread-histories".into()).or_default() += 1;
                                *st.probes.entry("caller-thread-scheduling-points".into()).or_default() += *yields;
                                *st.probes.entry("caller-thread-switches".into()).or_default() += *switches;
                                *st.probes.entry("caller-thread-switches-inside-a-lookup-possible".into()).or_default() += *inside_lookup;
                                *st.probes.entry(format!("caller-threads={threads}")).or_default() += 1;
                                st.step_orders.insert(fnv1a(trace_hash.as_bytes()));
                                if *uncontrolled {
                                    *st.probes.entry("caller-threads-uncontrolled".into()).or_default() += 1;
                                }
                            }
                        }
                        Event::Interleave { max_open, queries, .. } => {
                            st.max_open = st.max_open.max(*max_open);
                            if *max_open >= 2 {
                                nontrivial = true;
                            }
                            for op in &session.ops {
                                if let Op::Interleave { acts, .. } = op {
                                    st.step_orders.insert(fnv1a(serde_json::to_string(acts).unwrap_or_default().as_bytes()));
                                }
                            }
                            for q in queries {
                                if q.lookups.len() >= 2 {
                                    *st.probes.entry("query-with-several-lookups".into()).or_default() += 1;
                                }
                                if q.results.iter().any(|r| matches!(r, Res::Err { .. })) && q.results.iter().any(|r| matches!(r, Res::Ok { .. })) {
                                    *st.probes.entry("query-with-error-between-results".into()).or_default() += 1;
                                }
                                if !q.exhausted {
                                    *st.probes.entry("query-closed-before-exhausted".into()).or_default() += 1;
                                }
                            }
                        }
                        _ => {}
                    }
                }
                outcome.push(json!({"step": i, "start": if label.is_empty() { "undisturbed".to_string() } else { label }, "fired": c.fault_fired().map(|f| format!("{}@{}#{}", f.0, f.1, f.2)), "exit": c.exit, "directory_after": so.dir.class(ctx.side_b(so.build).1)}));
            }
            Step::Cli { query, env, .. } => {
                st.cli_runs += 1;
                if let Some(c) = &so.child {
                    if let Some((kind, point, _)) = c.fault_fired() {
                        // an interrupted system call injected into the program itself
                        fired += 1;
                        *st.faults_fired.entry(kind.clone()).or_default() += 1;
                        st.fault_sites_fired.insert(format!("{kind}@{point}"));
                    }
                    if env.iter().any(|(k, _)| k.starts_with("ANYTHING_VERIF_")) {
                        depth += 1;
                        st.faults_configured += 1;
                        let died = !matches!(c.exit, Exit::Code { code: 0 });
                        if died {
                            fired += 1;
                            for (k, v) in env {
                                let kind = if k.ends_with("KILL_AT") { "kill(cli)" } else { "fail(cli)" };
                                *st.faults_fired.entry(kind.into()).or_default() += 1;
                                st.fault_sites_fired.insert(format!("{kind}@{}", v.split('#').next().unwrap_or("")));
                            }
                        } else {
                            st.faults_not_reached += 1;
                        }
                    } else if !c.stdout.is_empty() {
                        if !env.is_empty() {
                            *st.probes.entry("cli-run-in-another-environment (TERM / NO_COLOR / RUST_LOG / LANG)".into()).or_default() += 1;
                        }
                        nontrivial = nontrivial || h.property == "C19";
                        if c.stdout.lines().filter(|l| !l.starts_with(' ') && !l.is_empty() && !l.starts_with('#') && !l.chars().next().map(|c| c.is_ascii_digit()).unwrap_or(false) || l.chars().next().map(|c| c.is_ascii_digit()).unwrap_or(false) && !l.contains(" │")).count() >= 2 {
                            *st.probes.entry("cli-printed-several-results".into()).or_default() += 1;
                        }
                        if c.stdout.contains("error: ") && c.stdout.lines().any(|l| !l.is_empty() && !l.starts_with("error: ") && !l.starts_with(' ') && !l.contains(" │") && !l.starts_with('#')) {
                            *st.probes.entry("cli-printed-values-and-diagnostics-in-one-run".into()).or_default() += 1;
                        }
                        if c.stdout.contains("error: ") {
                            *st.probes.entry("cli-printed-a-diagnostic".into()).or_default() += 1;
                        }
                        let n_diag = c.stdout.lines().filter(|l| l.starts_with("error: ")).count();
                        if n_diag > 20 {
                            *st.probes.entry("cli-printed-more-than-20-diagnostics-in-one-run".into()).or_default() += 1;
                        }
                        if c.stdout.lines().count() > 200 {
                            *st.probes.entry("cli-printed-more-than-200-lines".into()).or_default() += 1;
                        }
                        if c.stdout.contains('…') {
                            *st.probes.entry("cli-printed-a-truncated-decimal".into()).or_default() += 1;
                        }
                    }
                    outcome.push(json!({"step": i, "any": query, "exit": c.exit, "stdout": c.stdout.chars().take(160).collect::<String>(), "directory_after": so.dir.class(ctx.side_b(so.build).1)}));
                }
            }
        }
    }
    *st.depth_hist.entry(depth).or_default() += 1;
    if fired > 0 {
        nontrivial = true;
        if fired >= 2 {
            *st.probes.entry("fault-inside-recovery-from-an-earlier-fault".into()).or_default() += 1;
        }
    }
    if h.property == "C14" {
        let mut kinds = build_keys.clone();
        kinds.sort();
        kinds.dedup();
        nontrivial = kinds.len() >= 2;
    }
    if nontrivial {
        let mut key = history_hash(h);
        if h.property == "C14" || h.property == "C16" {
            key ^= fnv1a(build_keys.join("|").as_bytes());
        }
        st.distinct_nontrivial.insert(key);
    }
    if idx < 4 || (!vs.is_empty() && st.samples.len() < 8) {
        st.samples.push(json!({"history": compact_history(h), "outcome": outcome, "violations": vs.iter().map(|v| v.clause.clone()).collect::<Vec<_>>()}));
    }
}

fn run_parallel(ctx: &Ctx, hs: &[History], jobs: usize, deadline: Option<Instant>, mut on: impl FnMut(usize, &History, Trace, Vec<Violation>)) -> usize {
    let next = AtomicUsize::new(0);
    let (tx, rx) = mpsc::channel::<(usize, Trace, Vec<Violation>)>();
    let mut done = 0;
    std::thread::scope(|s| {
        for j in 0..jobs.min(hs.len().max(1)) {
            let tx = tx.clone();
            let next = &next;
            s.spawn(move || loop {
                if let Some(d) = deadline {
                    if Instant::now() > d {
                        break;
                    }
                }
                let i = next.fetch_add(1, Ordering::SeqCst);
                if i >= hs.len() {
                    break;
                }
                let work = ctx.scratch.join(format!("job{j}"));
                let mut trace = run_history(ctx, &hs[i], &work, j);
                if !trace.harness_errors.is_empty() {
                    // a watchdog on an overloaded machine is not a verdict on anything: the history is a
                    // pure function of its description, so simply execute it again (once)
                    eprintln!("simctl: harness problem in history {:?} ({}); executing it again", hs[i].label, trace.harness_errors.join("; "));
                    trace = run_history(ctx, &hs[i], &work, j);
                }
                let vs = if trace.harness_errors.is_empty() { judge(ctx, &hs[i], &trace) } else { vec![] };
                if tx.send((i, trace, vs)).is_err() {
                    break;
                }
            });
        }
        drop(tx);
        let started = Instant::now();
        let mut last = Instant::now();
        for (i, trace, vs) in rx {
            done += 1;
            on(i, &hs[i], trace, vs);
            if last.elapsed() > Duration::from_secs(30) {
                last = Instant::now();
                eprintln!("simctl: progress {done}/{} histories of this phase after {:.0}s", hs.len(), started.elapsed().as_secs_f64());
            }
        }
    });
    done
}

// ---------------------------------------------------------------------------------------------
// known findings

#[derive(serde::Deserialize, Clone, Debug)]
struct Finding {
    status: String,
    property: String,
    /// prefix of a violation signature
    signature_prefix: String,
    what: String,
    #[serde(default)]
    commit: Option<String>,
}

fn load_findings(verif: &Path) -> Vec<Finding> {
    let p = verif.join("known_findings.json");
    match std::fs::read_to_string(&p) {
        Ok(t) => match serde_json::from_str::<Value>(&t) {
            Ok(v) => v.get("findings").and_then(|f| serde_json::from_value(f.clone()).ok()).unwrap_or_default(),
            Err(e) => harness_fail(&format!("{}: {e}", p.display())),
        },
        Err(_) => vec![],
    }
}

// ---------------------------------------------------------------------------------------------

fn write_replay(o: &Opts, h: &History, v: &Violation, extra: Value) -> PathBuf {
    let dir = o.out.join("replays");
    let _ = std::fs::create_dir_all(&dir);
    let path = dir.join(format!("{}-{}-{:016x}.json", h.property, o.seed, history_hash(h)));
    let doc = json!({
        "property": h.property,
        "seed": o.seed,
        "run_seed": h.seed,
        "clause": v.clause,
        "detail": v.detail,
        "signature": v.signature,
        "minimisation": extra,
        "history": h,
    });
    std::fs::write(&path, serde_json::to_vec_pretty(&doc).unwrap()).unwrap_or_else(|e| harness_fail(&format!("{}: {e}", path.display())));
    path
}

fn replay_in_fresh_process(path: &Path) -> Option<bool> {
    let exe = std::env::current_exe().ok()?;
    let out = std::process::Command::new(exe).arg("replay").arg(path).output().ok()?;
    match out.status.code() {
        Some(1) => Some(true),
        Some(0) => Some(false),
        _ => None,
    }
}

fn histories_for(ctx: &Ctx, o: &Opts, prop: &str, quick: bool) -> Vec<History> {
    let mut hs = Vec::new();
    let pool = gen::phrase_pool(ctx);
    let n = |q: usize, t: usize| o.runs.unwrap_or(if quick { q } else { t });
    match prop {
        "C14" => {
            for i in 0..n(240, 4000) {
                let seed = derive(o.seed, "C14", i as u64);
                hs.push(gen::c14_random(ctx, &mut Rng::new(seed), seed, quick));
            }
            // two instances at once: a start beside another running instance that holds the writer lock
            for i in 0..n(6, 60) {
                let seed = derive(o.seed, "C14-contended", i as u64);
                hs.push(gen::c14_contended(ctx, &mut Rng::new(seed), seed, quick));
            }
            // with a second build of the tool (other embedded data): the data changes under the
            // on-disk index and back
            if ctx.alt.is_some() {
                for i in 0..n(12, 120) {
                    let seed = derive(o.seed, "C14-two", i as u64);
                    hs.push(gen::c14_two_builds(ctx, &mut Rng::new(seed), seed, quick));
                }
            }
        }
        "C16" => {
            let perms = if quick { Perms::Reverse } else { Perms::All };
            for i in 0..n(32, 400) {
                let seed = derive(o.seed, "C16", i as u64);
                hs.push(gen::c16_random(ctx, &mut Rng::new(seed), seed, perms, i));
            }
            // every listed prior state of the data directory: the start that recovers it, then a reopen
            for (i, (tag, st)) in gen::c15_states(ctx, !quick).iter().enumerate() {
                let seed = derive(o.seed, "C16-state", i as u64);
                hs.push(gen::c16_state(ctx, tag, st, if quick { Perms::Identity } else { Perms::Reverse }, seed));
            }
            // the data directory as the tool at the recorded baseline commit leaves it (only when the tree
            // under test differs from that commit), then this tree
            if ctx.base.is_some() {
                for i in 0..2u64 {
                    let seed = derive(o.seed, "C16-base", i);
                    hs.push(gen::c16_after_base(ctx, if quick { Perms::Identity } else { Perms::Reverse }, i == 1, seed));
                }
            }
            for i in 0..n(6, 64) {
                let seed = derive(o.seed, "C16-beside", i as u64);
                hs.push(gen::c16_beside(ctx, &mut Rng::new(seed), seed));
            }
            for i in 0..n(16, 300) {
                let seed = derive(o.seed, "C16-threads", i as u64);
                hs.push(gen::c16_threads(ctx, &mut Rng::new(seed), seed, if quick { 120 } else { 2000 }));
            }
        }
        "C18" => {
            for i in 0..n(400, 20000) {
                let seed = derive(o.seed, "C18", i as u64);
                hs.push(gen::c18_random(ctx, &pool, &mut Rng::new(seed), seed));
            }
            // a database opened over a directory that needs rebuilding while one I/O error is injected:
            // every hook point, first and last hit, four scripts each (thorough: twelve). If the open succeeds
            // regardless, the handle must behave like any other.
            if o.runs.is_none() {
                let mut i = 0u64;
                for (point, count) in gen::all_points(ctx) {
                    let ks: Vec<usize> = if count <= 1 { vec![0] } else { vec![0, count - 1] };
                    for k in ks {
                        for _ in 0..(if quick { 4 } else { 12 }) {
                            let seed = derive(o.seed, "C18-faulted-open", i);
                            i += 1;
                            hs.push(gen::c18_random_under(ctx, &pool, &mut Rng::new(seed), seed, Some((point.to_string(), k))));
                        }
                    }
                }
            }
            // one handle that sees many distinct phrases between repetitions; confusable spellings
            for i in 0..n(40, 800) {
                let seed = derive(o.seed, "C18-recurrence", i as u64);
                hs.push(gen::c18_recurrence(ctx, &pool, &mut Rng::new(seed), seed, quick));
            }
            for i in 0..n(160, 6000) {
                let seed = derive(o.seed, "C18-confusable", i as u64);
                hs.push(gen::c18_confusable(ctx, &pool, &mut Rng::new(seed), seed));
            }
            // the same property with real caller threads whose interleaving the simulator decides
            for i in 0..n(160, 8000) {
                let seed = derive(o.seed, "C18-threads", i as u64);
                hs.push(gen::c18_threads(ctx, &pool, &mut Rng::new(seed), seed));
            }
        }
        "C19" => {
            for i in 0..n(320, 6000) {
                let seed = derive(o.seed, "C19", i as u64);
                hs.push(gen::c19_random(ctx, &pool, &mut Rng::new(seed), seed));
            }
            // every order of magnitude: 10^k (times a factor near one, some with a unit or a sign) for
            // every k up to 25 000 in the thorough tier, 40 to 200 to an invocation, and a seeded sample of
            // 40 above that (the tool needs 0.1 s for 1e21000 and 0.8 s for 1e60000: the cost grows
            // with the square of k); a seeded sample of 100 up to 25 000 in quick
            if o.runs.is_none() {
                let mut r = Rng::new(derive(o.seed, "C19-magnitudes", 0));
                if quick {
                    for part in 0..2 {
                        let ks: Vec<usize> = (0..50).map(|_| r.range(13, 25_000)).collect();
                        hs.push(gen::c19_magnitudes(ctx, &ks, derive(o.seed, "C19-magnitudes", 1 + part)));
                    }
                } else {
                    // (the larger the values the fewer to an invocation: no history takes more than a few
                    // seconds of processor time)
                    let mut k = 1usize;
                    let mut part = 0u64;
                    while k <= 25_000 {
                        let n = if k < 5_000 { 200 } else if k < 12_000 { 80 } else { 40 };
                        let ks: Vec<usize> = (k..(k + n).min(25_001)).collect();
                        k += n;
                        part += 1;
                        hs.push(gen::c19_magnitudes(ctx, &ks, derive(o.seed, "C19-magnitudes", part)));
                    }
                    for part in 0..4 {
                        let ks: Vec<usize> = (0..10).map(|_| r.range(25_000, 66_000)).collect();
                        hs.push(gen::c19_magnitudes(ctx, &ks, derive(o.seed, "C19-magnitudes", 1000 + part)));
                    }
                }
            }
        }
        _ => {}
    }
    hs
}

struct Found {
    idx: usize,
    history: History,
    violation: Violation,
}

fn cmd_run(o: &Opts) -> i32 {
    let t0 = Instant::now();
    let quick = o.tier != "thorough";
    let prop = o.prop.as_str();
    if !["C14", "C15", "C16", "C18", "C19"].contains(&prop) {
        harness_fail(&format!("unknown property {prop:?}"));
    }
    let scratch_root = scratch_root();
    remove_stale_scratch(&scratch_root);
    let scratch = Scratch(PathBuf::from(scratch_root).join(format!("verif-sim-{}", std::process::id())));
    let findings = load_findings(&o.verif);
    println!("simctl: property={prop} tier={} seed={} jobs={} repo={}", o.tier, o.seed, o.jobs, o.repo);

    let ctx = match setup(o, &scratch.0, prop == "C15") {
        Ok(c) => c,
        Err(why) => {
            if prop == "C15" {
                // the most basic history already fails: nothing -> one start
                let h = History {
                    property: "C15".into(),
                    seed: 0,
                    label: "clean first start".into(),
                    steps: vec![Step::Start { session: Session { cpus: 1, faults: vec![], ops: vec![Op::Open { slot: 0, mode: Mode::Disk, plan: Plan::default() }], expected_docs: 0, repo: String::new(), alt: false, ver: false, ren: false, base: false, env: vec![], rand: 0 } }],
                };
                let v = Violation { property: "C15".into(), clause: "C15.clean-start".into(), step: 0, detail: why.clone(), focus: vec![], signature: "C15.clean-start".into() };
                let path = write_replay(o, &h, &v, json!({"note": "reference start failed; not minimised"}));
                println!("violation: {why}");
                println!("VIOLATION property=C15 replay={}", path.display());
                write_evidence(o, prop, &Stats { evaluations: 1, ..Default::default() }, 1, t0, 0, json!({"reference_start_failed": why}));
                return 1;
            }
            harness_fail(&format!("reference start failed (judged by C15): {why}"));
        }
    };
    println!(
        "simctl: {} shipped constants, {} typeable phrases, {} C14 phrases, reference version={} hash={}",
        ctx.shipped.constants.len(),
        ctx.qprime.len() - dirstate::FAKE_PHRASES.len() - ctx.qprime_ties,
        ctx.q14.len(),
        ctx.reference.version,
        ctx.reference.hash
    );
    let deadline = o.budget.map(|b| t0 + b);
    let mut st = Stats::default();
    let mut found: Vec<Found> = Vec::new();
    let mut extra = json!({});

    let collect = |st: &mut Stats, found: &mut Vec<Found>, hs: &[History]| {
        run_parallel(&ctx, hs, o.jobs, deadline, |i, h, trace, vs| {
            let n = st.evaluations;
            absorb(st, &ctx, n, h, &trace, &vs);
            for v in vs {
                found.push(Found { idx: i, history: h.clone(), violation: v });
            }
        })
    };

    // committed regression corpus first
    let known_dir = o.verif.join("replays").join("known");
    let mut corpus = Vec::new();
    if let Ok(rd) = std::fs::read_dir(&known_dir) {
        let mut files: Vec<PathBuf> = rd.flatten().map(|e| e.path()).filter(|p| p.extension().map(|e| e == "json").unwrap_or(false)).collect();
        files.sort();
        for f in files {
            if let Ok(t) = std::fs::read_to_string(&f) {
                if let Ok(v) = serde_json::from_str::<Value>(&t) {
                    if v.get("property").and_then(|p| p.as_str()) == Some(prop) {
                        if let Some(h) = v.get("history").and_then(|h| serde_json::from_value::<History>(h.clone()).ok()) {
                            // histories that switch between two builds need the alternative build
                            let needs_alt = h.steps.iter().any(|s| matches!(s, Step::Start { session } if session.alt));
                            if !needs_alt || ctx.alt.is_some() {
                                corpus.push(h);
                            }
                        }
                    }
                }
            }
        }
    }
    let corpus_n = corpus.len();
    if !corpus.is_empty() {
        collect(&mut st, &mut found, &corpus);
    }

    if prop == "C15" {
        // phase 1: every listed state, undisturbed (also learns which hook points each state reaches)
        let states = gen::c15_states(&ctx, !quick);
        let mut rng = Rng::new(derive(o.seed, "C15-subset", 0));
        let subset = if quick { gen::qprime_subset(&ctx, &mut rng, 40) } else { gen::qprime_subset(&ctx, &mut rng, 200) };
        let probes: Vec<History> = states.iter().map(|(tag, s)| gen::c15_cell(&ctx, tag, s, vec![], if quick { subset.clone() } else { None }, 0)).collect();
        let mut reached: Vec<Vec<(String, usize)>> = vec![Vec::new(); probes.len()];
        run_parallel(&ctx, &probes, o.jobs, deadline, |i, h, trace, vs| {
            if let Some(c) = trace.steps.get(1).and_then(|s| s.child.as_ref()) {
                if let Some(b) = builds(c).into_iter().find(|b| b.mode == "disk") {
                    reached[i] = b.points.clone();
                }
            }
            let n = st.evaluations;
            absorb(&mut st, &ctx, n, h, &trace, &vs);
            for v in vs {
                found.push(Found { idx: i, history: h.clone(), violation: v });
            }
        });
        // phase 2: the state x crash-point product
        let mut cells = Vec::new();
        let mut class_seen: BTreeSet<String> = BTreeSet::new();
        for (si, (tag, s)) in states.iter().enumerate() {
            // torn lengths and garbage kinds beyond the first of each class get a seeded sample of sites
            let class: String = tag.split('(').next().unwrap_or(tag).to_string() + tag.rsplit(')').next().unwrap_or("");
            let representative = class_seen.insert(class);
            let mut sites: Vec<(String, usize)> = Vec::new();
            for (p, count) in &reached[si] {
                for k in gen::k_samples(&ctx, p, *count, !quick) {
                    sites.push((p.clone(), k));
                }
            }
            if !representative {
                let mut r = Rng::new(derive(o.seed, "C15-sites", si as u64));
                r.shuffle(&mut sites);
                sites.truncate(if quick { 2 } else { 6 });
            }
            for (p, k) in sites {
                let seed = derive(o.seed, "C15-cell", cells.len() as u64);
                let mut r = Rng::new(seed);
                cells.push(gen::c15_cell(&ctx, tag, s, vec![Fault::Kill { point: p.clone(), k }], subset.clone(), seed));
                if !quick || r.chance(1, 3) {
                    cells.push(gen::c15_cell(&ctx, tag, s, vec![Fault::Fail { point: p.clone(), k, interrupted: false }], subset.clone(), seed));
                    // the same failure as a particular kind of I/O error (quick: three kinds at the first hit; thorough: all ten)
                    if k == 0 || !quick {
                        for (ki, kind) in gen::ERROR_KINDS.iter().enumerate() {
                            if quick && ki >= 3 {
                                break;
                            }
                            cells.push(gen::c15_cell(&ctx, tag, s, vec![Fault::FailKind { point: p.clone(), k, error: kind.to_string() }], subset.clone(), seed));
                        }
                    }
                }
                if p == "meta.write" {
                    cells.push(gen::c15_cell(&ctx, tag, s, vec![Fault::Fail { point: p.clone(), k, interrupted: true }], subset.clone(), seed));
                    cells.push(gen::c15_cell(&ctx, tag, s, vec![Fault::ShortWrites { max: 1 + k % 3 }, Fault::Kill { point: p.clone(), k: k * 2 }], subset.clone(), seed));
                }
            }
        }
        if !quick {
            // a torn meta.json at every byte, produced by a real kill between one-byte writes
            if let Some((tag, s0)) = states.iter().find(|(t, _)| t == "absent") {
                for k in 0..ctx.reference.meta_text.len() + 2 {
                    let seed = derive(o.seed, "C15-torn", k as u64);
                    cells.push(gen::c15_cell(&ctx, tag, s0, vec![Fault::ShortWrites { max: 1 }, Fault::Kill { point: "meta.write".into(), k }], subset.clone(), seed));
                }
            }
        }
        let n_cells = cells.len();
        collect(&mut st, &mut found, &cells);
        // phase 2b: two interruptions in a row, the directory possibly damaged in between - enumerated,
        // not drawn: a first start killed late (from the commit onwards: whatever it leaves is "almost
        // done"), then nothing / the index directory lost / the metadata lost, then a start killed
        // early in the recovery, then two undisturbed starts
        {
            let late: Vec<(&str, usize)> = vec![("rebuild.before_commit", 0), ("rebuild.committed", 0), ("rebuild.reloaded", 0), ("meta.before_create", 0), ("meta.created", 0), ("meta.write", 3), ("meta.written", 0), ("open.done", 0)];
            let early: Vec<&str> = if quick { vec!["index.ready", "rebuild.start", "rebuild.cleared", "rebuild.before_commit", "rebuild.committed", "meta.written"] } else { vec!["open.config_read", "index.before_remove", "index.meta_invalidated", "index.removed", "index.dir_created", "index.ready", "rebuild.meta_invalidated", "rebuild.start", "rebuild.writer_created", "rebuild.cleared", "rebuild.asset_start", "rebuild.after_add", "rebuild.before_commit", "rebuild.committed", "rebuild.reloaded", "meta.before_create", "meta.created", "meta.written"] };
            let damages: Vec<Option<anything_sim::dirstate::Damage>> = vec![None, Some(anything_sim::dirstate::Damage::DeleteIndexDir), Some(anything_sim::dirstate::Damage::DeleteMeta)];
            let starts: Vec<(String, anything_sim::dirstate::StateSpec)> = if quick { states.iter().filter(|(t, _)| t == "absent").cloned().collect() } else { states.iter().filter(|(t, _)| t == "absent" || t == "complete" || t.starts_with("other-data") || t.starts_with("index-missing")).cloned().collect() };
            let mut cells = Vec::new();
            for (tag, st0) in &starts {
                for (p1, k1) in &late {
                    for d in &damages {
                        for p2 in &early {
                            let seed = derive(o.seed, "C15-twice", cells.len() as u64);
                            let mut steps = vec![Step::Fabricate { state: st0.clone() }, Step::Start { session: gen::c15_session(&ctx, vec![Fault::Kill { point: p1.to_string(), k: *k1 }], subset.clone()) }];
                            if let Some(d) = d {
                                steps.push(Step::Damage { d: d.clone() });
                            }
                            steps.push(Step::Start { session: gen::c15_session(&ctx, vec![Fault::Kill { point: p2.to_string(), k: 0 }], subset.clone()) });
                            steps.push(Step::Start { session: gen::c15_session_ordered(&ctx, vec![], subset.clone(), cells.len() % 2 == 1) });
                            steps.push(Step::Start { session: gen::c15_session(&ctx, vec![], subset.clone()) });
                            cells.push(History { property: "C15".into(), seed, label: format!("{tag} x kill@{p1} / {} / kill@{p2}", d.as_ref().map(|d| format!("{d:?}")).unwrap_or_else(|| "-".into())), steps });
                        }
                    }
                }
            }
            collect(&mut st, &mut found, &cells);
        }
        // phase 3: seeded deeper histories
        let n_random = o.runs.unwrap_or(if quick { 40 } else { 2000 });
        let randoms: Vec<History> = (0..n_random)
            .map(|i| {
                let seed = derive(o.seed, "C15-random", i as u64);
                gen::c15_random(&ctx, &mut Rng::new(seed), seed, quick)
            })
            .collect();
        collect(&mut st, &mut found, &randoms);
        // phase 4: crash points and I/O errors inside tantivy, injected from outside with ptrace
        let mut n_sys = 0;
        // the injector needs ptrace: probe it once, and do without this phase where it is not permitted
        let strace_ok = ctx.caps_strace;
        if strace_ok {
            let mut sys = Vec::new();
            let sstates = gen::syscall_states(&ctx);
            let mut r = Rng::new(derive(o.seed, "C15-sys", 0));
            for (tag, s) in &sstates {
                for (call, max, errnos) in gen::syscall_errnos() {
                    let errnos: Vec<&str> = errnos.into_iter().filter(|e| inject_spec_ok(call, e)).collect();
                    if errnos.is_empty() {
                        continue;
                    }
                    for when in 1..=max {
                        // quick: one errno per occurrence, rotating; thorough: every errno
                        let mut flavours: Vec<Option<String>> = vec![None];
                        if quick {
                            flavours.push(Some(errnos[when % errnos.len()].to_string()));
                        } else {
                            flavours.extend(errnos.iter().map(|e| Some(e.to_string())));
                        }
                        for errno in flavours {
                            // quick: a seeded sample keeps the injector exercised on every change (errnos
                            // 1 in 8; kills 1 in 30: they cannot use the cheap seccomp filter, and the
                            // hook-level kills already cover the repository's own steps)
                            if quick && !r.chance(1, if errno.is_some() { 8 } else { 30 }) {
                                continue;
                            }
                            let seed = derive(o.seed, "C15-sys", sys.len() as u64);
                            sys.push(gen::c15_cell(&ctx, tag, s, vec![Fault::Syscall { call: call.to_string(), when, errno }], subset.clone(), seed));
                        }
                    }
                }
            }
            // interrupted system calls: not a fault to recover from but one nobody may notice
            for (tag, s) in &sstates {
                for (call, max) in gen::eintr_sites() {
                    if !inject_spec_ok(call, "EINTR") {
                        continue;
                    }
                    for when in 1..=max {
                        if quick && !r.chance(1, 8) {
                            continue;
                        }
                        let seed = derive(o.seed, "C15-sys", sys.len() as u64);
                        sys.push(gen::c15_cell(&ctx, tag, s, vec![Fault::Syscall { call: call.to_string(), when, errno: Some("EINTR".into()) }], subset.clone(), seed));
                    }
                }
            }
            n_sys = sys.len();
            collect(&mut st, &mut found, &sys);
        }
        // phase 4a: seeded garbage in meta.json over a complete, a foreign and a missing index
        {
            let n = o.runs.map(|r| r / 4).unwrap_or(if quick { 36 } else { 900 });
            let mut r = Rng::new(derive(o.seed, "C15-garbage", 0));
            let cells: Vec<History> = (0..n)
                .map(|i| {
                    let (meta, reads_as_current) = gen::random_garbage(&ctx, &mut r);
                    let mut index = *r.pick(&[anything_sim::dirstate::IndexSpec::Complete, anything_sim::dirstate::IndexSpec::Foreign, anything_sim::dirstate::IndexSpec::Absent, anything_sim::dirstate::IndexSpec::Complete]);
                    if reads_as_current && index == anything_sim::dirstate::IndexSpec::Foreign {
                        index = anything_sim::dirstate::IndexSpec::Complete;
                    }
                    let seed = derive(o.seed, "C15-garbage", i as u64 + 1);
                    gen::c15_cell(&ctx, "meta-garbage(seeded)", &gen::state(true, meta, index), vec![], subset.clone(), seed)
                })
                .collect();
            collect(&mut st, &mut found, &cells);
        }
        // phase 4a': two instances at once. From every listed state that holds an index, a start
        // while another running instance holds the index writer lock; then undisturbed starts.
        let mut n_contended = 0;
        {
            let mut cells = Vec::new();
            for (i, (tag, stt)) in states.iter().enumerate() {
                if stt.index == anything_sim::dirstate::IndexSpec::Absent {
                    continue;
                }
                if quick && i % 3 != 0 {
                    continue;
                }
                let seed = derive(o.seed, "C15-contended", i as u64);
                cells.push(gen::c15_contended(&ctx, tag, stt, if i % 2 == 0 { 2000 } else { 4000 }, subset.clone(), seed));
            }
            n_contended = cells.len();
            collect(&mut st, &mut found, &cells);
        }
        // phase 4b: a real full disk. The data directory lives on a file system of its own whose
        // capacity is swept page by page and inode by inode over everything a rebuild needs.
        let mut n_disk = 0;
        let mount_ok = std::env::var("VERIF_NO_MOUNT").is_err() && anything_sim::history::can_mount(&ctx.scratch);
        if mount_ok {
            let mut cells = Vec::new();
            let mut dstates = gen::syscall_states(&ctx);
            dstates.push(("complete".into(), gen::state(true, anything_sim::dirstate::MetaSpec::Current, anything_sim::dirstate::IndexSpec::Complete)));
            dstates.push(("torn-meta+complete".into(), gen::state(true, anything_sim::dirstate::MetaSpec::CurrentPrefix { bytes: 9 }, anything_sim::dirstate::IndexSpec::Complete)));
            for (tag, s) in &dstates {
                for pages in 0..=44u64 {
                    if quick && pages % 4 != 1 {
                        continue;
                    }
                    let seed = derive(o.seed, "C15-disk", cells.len() as u64);
                    cells.push(gen::c15_disk_cell(&ctx, tag, s, Some(pages), None, subset.clone(), seed));
                }
                for inodes in 0..=18u64 {
                    if quick && inodes % 3 != 1 {
                        continue;
                    }
                    let seed = derive(o.seed, "C15-disk", cells.len() as u64);
                    cells.push(gen::c15_disk_cell(&ctx, tag, s, None, Some(inodes), subset.clone(), seed));
                }
                if !quick {
                    // both limits at once, seeded
                    let mut r = Rng::new(derive(o.seed, "C15-disk-both", cells.len() as u64));
                    for _ in 0..30 {
                        let seed = derive(o.seed, "C15-disk", cells.len() as u64);
                        cells.push(gen::c15_disk_cell(&ctx, tag, s, Some(r.range(0, 40) as u64), Some(r.range(0, 16) as u64), subset.clone(), seed));
                    }
                }
            }
            n_disk = cells.len();
            collect(&mut st, &mut found, &cells);
        }
        // phase 4c: seeded deeper histories over all fault kinds together
        let n_mixed = o.runs.unwrap_or(if quick { 60 } else { 3000 });
        let mixed: Vec<History> = (0..n_mixed)
            .map(|i| {
                let seed = derive(o.seed, "C15-mixed", i as u64);
                gen::c15_random_mixed(&ctx, &mut Rng::new(seed), seed, quick, strace_ok, mount_ok)
            })
            .collect();
        collect(&mut st, &mut found, &mixed);
        // phase 4d: long lives of one directory
        let n_soak = o.runs.map(|r| r / 10).unwrap_or(if quick { 8 } else { 300 });
        let soak: Vec<History> = (0..n_soak)
            .map(|i| {
                let seed = derive(o.seed, "C15-soak", i as u64);
                gen::c15_soak(&ctx, &mut Rng::new(seed), seed, quick)
            })
            .collect();
        collect(&mut st, &mut found, &soak);
        // phase 5: the same code built with other embedded data ("written for other data" for real)
        let mut n_two = 0;
        let mut two_note = "skipped: no alternative build was provided (./check C15 thorough builds one)".to_string();
        if let Some(alt) = &ctx.alt {
            let same_hash = alt.reference.hash == ctx.reference.hash;
            two_note = format!(
                "alternative build with {} constants whose asset files have the same names, compressed sizes, uncompressed lengths and CRC-32 but other content; its hash {} the main build's",
                alt.shipped.constants.len(),
                if same_hash { "EQUALS" } else { "differs from" }
            );
            let mut two = Vec::new();
            let sess = |alt: bool, faults: Vec<Fault>, mem_first: bool| {
                let mut s = gen::c15_session_ordered(&ctx, faults, subset.clone(), mem_first);
                s.alt = alt;
                Step::Start { session: s }
            };
            let mk = |label: String, steps: Vec<Step>, n: usize| History { property: "C15".into(), seed: derive(o.seed, "C15-two", n as u64), label, steps };
            for first_alt in [false, true] {
                let (a, b) = if first_alt { ("other build", "this build") } else { ("this build", "other build") };
                two.push(mk(format!("{a} then {b}"), vec![sess(first_alt, vec![], false), sess(!first_alt, vec![], false), sess(!first_alt, vec![], true)], two.len()));
                two.push(mk(format!("{a}, {b}, {a} again"), vec![sess(first_alt, vec![], false), sess(!first_alt, vec![], false), sess(first_alt, vec![], false), sess(first_alt, vec![], false)], two.len()));
                // the second build's rebuild interrupted at every hook point it reaches
                let pts: Vec<(String, usize)> = reached.iter().find(|r| r.iter().any(|(p, _)| p == "rebuild.before_commit")).cloned().unwrap_or_default();
                for (p, count) in &pts {
                    for k in gen::k_samples(&ctx, p, *count, false) {
                        for flavour in 0..2 {
                            let f = if flavour == 0 { Fault::Kill { point: p.clone(), k } } else { Fault::Fail { point: p.clone(), k, interrupted: false } };
                            if quick && flavour == 1 {
                                continue;
                            }
                            let lab = gen::fault_label(&f);
                            two.push(mk(format!("{a}, then {b} with {lab}, then {b}"), vec![sess(first_alt, vec![], false), sess(!first_alt, vec![f.clone()], false), sess(!first_alt, vec![], two.len() % 2 == 1), sess(!first_alt, vec![], false)], two.len()));
                            if flavour == 0 {
                                two.push(mk(format!("{a}, then {b} with {lab}, then back to {a}"), vec![sess(first_alt, vec![], false), sess(!first_alt, vec![f], false), sess(first_alt, vec![], false), sess(!first_alt, vec![], false)], two.len()));
                            }
                        }
                    }
                }
            }
            n_two = two.len();
            collect(&mut st, &mut found, &two);
        }
        // phase 5b: the same code and data built as another version with another tokenizer
        // configuration ("written by another version" for real): the two versions take turns on one
        // directory, the later one interrupted at every hook point it reaches
        let mut n_ver = 0;
        let mut ver_note = "skipped: no other-version build was provided (./check C15 thorough builds one)".to_string();
        if let Some(v) = &ctx.ver {
            ver_note = format!("other-version build: version {} (this tree: {}), hash {} this tree's, index built with another n-gram range", v.reference.version, ctx.reference.version, if v.reference.hash == ctx.reference.hash { "EQUALS" } else { "differs from" });
            let mut hs = Vec::new();
            let sess = |ver: bool, faults: Vec<Fault>, mem_first: bool| {
                let mut s = gen::c15_session_ordered(&ctx, faults, subset.clone(), mem_first);
                s.ver = ver;
                Step::Start { session: s }
            };
            let mk = |label: String, steps: Vec<Step>, n: usize| History { property: "C15".into(), seed: derive(o.seed, "C15-ver", n as u64), label, steps };
            for first_ver in [true, false] {
                let (a, b) = if first_ver { ("other version", "this version") } else { ("this version", "other version") };
                hs.push(mk(format!("{a} then {b}"), vec![sess(first_ver, vec![], false), sess(!first_ver, vec![], false), sess(!first_ver, vec![], true)], hs.len()));
                hs.push(mk(format!("{a}, {b}, {a} again"), vec![sess(first_ver, vec![], false), sess(!first_ver, vec![], false), sess(first_ver, vec![], false), sess(first_ver, vec![], false)], hs.len()));
                let pts: Vec<(String, usize)> = reached.iter().find(|r| r.iter().any(|(p, _)| p == "rebuild.before_commit")).cloned().unwrap_or_default();
                for (p, count) in &pts {
                    for k in gen::k_samples(&ctx, p, *count, false) {
                        for flavour in 0..2 {
                            if quick && (flavour == 1 || k > 0) {
                                continue;
                            }
                            let f = if flavour == 0 { Fault::Kill { point: p.clone(), k } } else { Fault::Fail { point: p.clone(), k, interrupted: false } };
                            let lab = gen::fault_label(&f);
                            hs.push(mk(format!("{a}, then {b} with {lab}, then {b}"), vec![sess(first_ver, vec![], false), sess(!first_ver, vec![f.clone()], false), sess(!first_ver, vec![], hs.len() % 2 == 1), sess(!first_ver, vec![], false)], hs.len()));
                            if flavour == 0 {
                                hs.push(mk(format!("{a}, then {b} with {lab}, then back to {a}"), vec![sess(first_ver, vec![], false), sess(!first_ver, vec![f], false), sess(first_ver, vec![], false), sess(!first_ver, vec![], false)], hs.len()));
                            }
                        }
                    }
                }
            }
            n_ver = hs.len();
            collect(&mut st, &mut found, &hs);
        }
        // phase 5c: the same code, version and file contents with the first fact asset renamed so that
        // it is indexed last: to every phrase that ties across assets this is other data. The two
        // builds take turns on one directory; each must answer as its own fresh in-memory database.
        let mut n_ren = 0;
        let mut ren_note = "skipped: no renamed-assets build was provided (./check C15 thorough builds one)".to_string();
        if let Some(v) = &ctx.ren {
            ren_note = format!("renamed-assets build: the same {} constants, assets {:?} (this tree: {:?}), hash {} this tree's", v.shipped.constants.len(), v.shipped.assets.iter().map(|a| a.0.as_str()).collect::<Vec<_>>(), ctx.shipped.assets.iter().map(|a| a.0.as_str()).collect::<Vec<_>>(), if v.reference.hash == ctx.reference.hash { "EQUALS" } else { "differs from" });
            let mut hs = Vec::new();
            let sess = |ren: bool, faults: Vec<Fault>, mem_first: bool| {
                let mut s = gen::c15_session_ordered(&ctx, faults, subset.clone(), mem_first);
                s.ren = ren;
                Step::Start { session: s }
            };
            let mk = |label: String, steps: Vec<Step>, n: usize| History { property: "C15".into(), seed: derive(o.seed, "C15-ren", n as u64), label, steps };
            for first in [true, false] {
                let (a, b) = if first { ("renamed assets", "this build") } else { ("this build", "renamed assets") };
                hs.push(mk(format!("{a} then {b}"), vec![sess(first, vec![], false), sess(!first, vec![], false), sess(!first, vec![], true)], hs.len()));
                hs.push(mk(format!("{a}, {b}, {a} again"), vec![sess(first, vec![], false), sess(!first, vec![], false), sess(first, vec![], false), sess(first, vec![], false)], hs.len()));
                let pts: Vec<(String, usize)> = reached.iter().find(|r| r.iter().any(|(p, _)| p == "rebuild.before_commit")).cloned().unwrap_or_default();
                for (p, count) in &pts {
                    for k in gen::k_samples(&ctx, p, *count, false) {
                        if quick && k > 0 {
                            continue;
                        }
                        let f = Fault::Kill { point: p.clone(), k };
                        let lab = gen::fault_label(&f);
                        hs.push(mk(format!("{a}, then {b} with {lab}, then {b}"), vec![sess(first, vec![], false), sess(!first, vec![f.clone()], false), sess(!first, vec![], hs.len() % 2 == 1), sess(!first, vec![], false)], hs.len()));
                    }
                }
            }
            n_ren = hs.len();
            collect(&mut st, &mut found, &hs);
        }
        // phase 5d: the tool as it was at the recorded baseline commit (only when the tree under test
        // differs from it): its directory is what a user who updates without a version change starts from
        let mut n_base = 0;
        let mut base_note = "not built: the tree under test is the recorded baseline (or no baseline build was requested)".to_string();
        if let Some(v) = &ctx.base {
            base_note = format!("baseline build: version {}, hash {} this tree's", v.reference.version, if v.reference.hash == ctx.reference.hash { "EQUALS" } else { "differs from" });
            let mut hs = Vec::new();
            let sess = |base: bool, faults: Vec<Fault>, mem_first: bool| {
                let mut s = gen::c15_session_ordered(&ctx, faults, subset.clone(), mem_first);
                s.base = base;
                Step::Start { session: s }
            };
            let mk = |label: String, steps: Vec<Step>, n: usize| History { property: "C15".into(), seed: derive(o.seed, "C15-base", n as u64), label, steps };
            hs.push(mk("the baseline build, then this tree twice".into(), vec![sess(true, vec![], false), sess(false, vec![], false), sess(false, vec![], true)], 0));
            hs.push(mk("this tree, the baseline build, this tree".into(), vec![sess(false, vec![], false), sess(true, vec![], false), sess(false, vec![], false), sess(false, vec![], false)], 1));
            let pts: Vec<(String, usize)> = reached.iter().find(|r| r.iter().any(|(p, _)| p == "rebuild.before_commit")).cloned().unwrap_or_default();
            for (p, _) in &pts {
                let f = Fault::Kill { point: p.clone(), k: 0 };
                let lab = gen::fault_label(&f);
                hs.push(mk(format!("the baseline build, then this tree with {lab}, then this tree"), vec![sess(true, vec![], false), sess(false, vec![f], false), sess(false, vec![], false), sess(false, vec![], true)], hs.len()));
            }
            n_base = hs.len();
            collect(&mut st, &mut found, &hs);
        }
        extra = json!({"baseline_build_histories": n_base, "baseline_build": base_note, "contended_start_histories": n_contended, "renamed_assets_histories": n_ren, "renamed_assets": ren_note, "other_version_histories": n_ver, "other_version": ver_note, "long_life_histories": n_soak, "mixed_fault_kind_histories": n_mixed, "full_disk_histories": n_disk, "full_disk": if mount_ok { "the data directory on a tmpfs of its own whose free pages (0..=44) and free inodes (0..=18) are swept; ENOSPC comes from the kernel" } else { "skipped: this process may not mount a tmpfs" }, "two_build_histories": n_two, "two_build": two_note, "syscall_level_histories": n_sys, "syscall_injector": if strace_ok { "strace -f -e inject=<call>:signal=SIGKILL|error=<errno>:when=K around the simnode child" } else { "skipped: strace not available" },
            "listed_states": states.len(), "undisturbed_state_probes": probes.len(), "state_x_crash_point_cells": n_cells, "seeded_deeper_histories": n_random,
            "exhaustive_over": "every listed state class x every hook point its recovery reaches x kill and fail (all sampled k per multi-hit point); other torn lengths / garbage kinds with a seeded sample of sites"});
    } else {
        let hs = histories_for(&ctx, o, prop, quick);
        collect(&mut st, &mut found, &hs);
    }
    if let Value::Object(m) = &mut extra {
        m.insert("regression_corpus_histories".into(), json!(corpus_n));
    }

    // ------------------------------------------------------------------ verdict
    if !st.harness_errors.is_empty() {
        for e in st.harness_errors.iter().take(5) {
            eprintln!("HARNESS-ERROR: {e}");
        }
    }
    found.sort_by_key(|f| f.idx);
    let mut reported: BTreeSet<String> = BTreeSet::new();
    let mut known_printed: BTreeSet<String> = BTreeSet::new();
    let mut violations = 0;
    for f in &found {
        if let Some(k) = findings.iter().find(|k| k.status == "known" && k.property == f.violation.property && f.violation.signature.starts_with(&k.signature_prefix)) {
            if known_printed.insert(k.signature_prefix.clone()) {
                println!("KNOWN-FINDING: property={} {}", k.property, k.what);
            }
            continue;
        }
        violations += 1;
        if !reported.insert(f.violation.clause.clone()) || reported.len() > 3 {
            continue;
        }
        println!("violation [{}] in history {:?}: {}", f.violation.clause, f.history.label, f.violation.detail);
        let budget = match prop {
            "C18" => 400,
            "C19" | "C16" => 200,
            _ => 150,
        };
        let sh = shrink(&ctx, &f.history, &f.violation, budget, &ctx.scratch.join("shrink"), 0);
        let path = write_replay(
            o,
            &sh.history,
            &sh.violation,
            json!({"candidates_tried": sh.tried, "accepted": sh.accepted, "steps_before": f.history.steps.len(), "steps_after": sh.history.steps.len(), "original_label": f.history.label}),
        );
        let reproduced = replay_in_fresh_process(&path);
        println!("minimised: {} -> {} steps ({} candidates); replay in a fresh process reproduced: {:?}", f.history.steps.len(), sh.history.steps.len(), sh.tried, reproduced);
        println!("  {}", sh.violation.detail);
        println!("VIOLATION property={} replay={}", f.violation.property, path.display());
    }
    {
        let mut by_sig: BTreeMap<String, usize> = BTreeMap::new();
        for f in &found {
            *by_sig.entry(f.violation.signature.clone()).or_default() += 1;
        }
        for (s, n) in &by_sig {
            println!("violation class x{n}: {s}");
        }
    }
    for k in findings.iter().filter(|k| k.status == "fixed" && k.property == prop) {
        println!("note: fixed finding on record: property={} {} {}", k.property, k.commit.clone().unwrap_or_default(), k.what);
    }
    let wall = t0.elapsed().as_secs_f64();
    {
        let ru = |who| unsafe {
            let mut r: libc::rusage = std::mem::zeroed();
            libc::getrusage(who, &mut r);
            (r.ru_utime.tv_sec as f64 + r.ru_utime.tv_usec as f64 / 1e6, r.ru_stime.tv_sec as f64 + r.ru_stime.tv_usec as f64 / 1e6)
        };
        let (su, ss) = ru(libc::RUSAGE_SELF);
        let (cu, cs) = ru(libc::RUSAGE_CHILDREN);
        println!("simctl: cpu seconds: simulator {su:.1} user + {ss:.1} system, children {cu:.1} user + {cs:.1} system");
    }
    write_evidence(o, prop, &st, violations, t0, corpus_n, extra);
    println!(
        "simctl: {} histories, {} starts, {} cli runs, {} faults fired, {} distinct non-trivial, {:.1}s -> {}",
        st.evaluations,
        st.starts,
        st.cli_runs,
        st.faults_fired.values().sum::<usize>(),
        st.distinct_nontrivial.len(),
        wall,
        if violations > 0 { "VIOLATED" } else { "held" }
    );
    if violations > 0 {
        1
    } else if !st.harness_errors.is_empty() {
        2
    } else {
        0
    }
}

fn shim_built() -> bool {
    std::env::var("VERIF_NO_SHIM").is_err() && std::env::current_exe().ok().and_then(|p| p.parent().map(|d| d.join("libverifrand.so").is_file())).unwrap_or(false)
}

fn write_evidence(o: &Opts, prop: &str, st: &Stats, violations: usize, t0: Instant, _corpus: usize, extra: Value) {
    let wall = t0.elapsed().as_secs_f64();
    let level = if prop == "C15" { "fault_enumeration" } else { "exploration" };
    let rule = match prop {
        "C14" => "seeded histories of 3-5 sessions (1-3 in-memory builds in one process / first on-disk start / reopen / rebuild after damaged metadata), each build under its own worker plan and CPU count; non-trivial = the history contains at least two index builds or openings that differ in kind or realised document->worker partition; distinct by (history, realised partitions)",
        "C15" => "phase 1 every listed prior state undisturbed, phase 2 the state x crash-point product (kill and fail at every hook point the state's recovery reaches), phase 3 seeded histories of depth 2-4 with damage and faults placed inside earlier recoveries; each followed by two undisturbed starts; non-trivial = at least one injected fault actually fired or the start found a fabricated non-empty directory; distinct by canonical step list",
        "C16" => "seeded histories producing index states of every provenance class (fresh in-memory, fresh on-disk, reopened, rebuilt over foreign data, recovered after a fault, started from a listed damaged state); in each undisturbed session all shipped constants are looked up by their own words (and permutations); non-trivial = at least one own-words sweep ran; distinct by (history, realised partitions)",
        "C18" => "seeded scripts of 4-11 lazily evaluated queries (each text with both describe flags) opened, stepped and closed in PRNG order against one database, compared with isolation on a second database and with the lookup seam; non-trivial = at least two iterators were open at once; distinct by canonical script",
        "C19" => "seeded histories: a listed prior directory state (sometimes a killed start), then the real `any` program on 2-4 generated queries (first call performs the recovery, each query repeated), then a library session on the same directory for the same texts; non-trivial = the program printed something; distinct by canonical step list",
        _ => "",
    };
    let per_hour = |n: usize| if wall > 0.0 { (n as f64 * 3600.0 / wall).round() as u64 } else { 0 };
    let mut coverage = json!({
        "evaluations": st.evaluations,
        "distinct_nontrivial": st.distinct_nontrivial.len(),
        "rule": rule,
        "samples": st.samples,
        "exhaustive": false,
        "runs_per_hour": per_hour(st.evaluations),
        "process_starts": st.starts,
        "cli_runs": st.cli_runs,
        "simulated_time": {"unit": "logical steps (hook events); the system has no clock or timer", "hook_events": st.hook_events, "phrases_answered": st.lookups_answered},
        "faults_fired": st.faults_fired,
        "fault_sites_fired": st.fault_sites_fired,
        "faults_configured": st.faults_configured,
        "faults_whose_point_was_not_reached": st.faults_not_reached,
        "distinct_traces": st.distinct_traces.len(),
        "distinct_worker_partitions": st.partitions.len(),
        "index_builds": st.builds,
        "rebuilds": st.rebuilds,
        "workers_histogram": st.workers_hist.iter().map(|(k, v)| (k.to_string(), *v)).collect::<BTreeMap<_, _>>(),
        "cpus_seen_by_children_histogram": st.cpus_seen_hist.iter().map(|(k, v)| (k.to_string(), *v)).collect::<BTreeMap<_, _>>(),
        "context_switch_histogram": st.switches_hist,
        "directory_classes_seen": st.dir_classes,
        "fault_depth_histogram": st.depth_hist.iter().map(|(k, v)| (k.to_string(), *v)).collect::<BTreeMap<_, _>>(),
        "tainted_builds": st.tainted_builds,
        "uncontrolled_builds": st.uncontrolled_builds,
        "probes": st.probes,
        "cells_fired": st.cells_fired.len(),
        "cells_fired_list": st.cells_fired,
        "cells_unreachable": st.cells_unreachable,
        "harness_errors": st.harness_errors.len(),
        "components": {
            "real": ["anything library (feature verif)", "any binary (src/bin/any.rs)", "tantivy 0.19.2", "crossbeam-channel", "rayon", "serde_cbor", "flate2", "rust-embed", "OS threads (scheduled by the simulator through the tokenizer seam)", "local file system (private XDG_DATA_HOME per history)"],
            "stubbed": [],
            "simulator_owned": ["which indexing worker receives which document", "worker release order before commit", "worker count via CPU affinity", "which producer thread feeds the next document", "which caller thread runs at every step / lookup / hook point", "kill / io-error / EINTR / short-write injection at hook points", "system-call level kill / errno / EINTR (ptrace)", "capacity of the data file system (tmpfs)", "directory damage between starts", "interleaving of open queries",
                if shim_built() { "process randomness: getrandom(2) answered from a per-start seed (LD_PRELOAD), i.e. hash-map seeds and UUIDs" } else { "process randomness NOT owned in this run (no C compiler: the shim was not built)" }]
        }
    });
    if let (Value::Object(c), Value::Object(e)) = (&mut coverage, extra) {
        for (k, v) in e {
            c.insert(k, v);
        }
        if prop == "C16" {
            c.insert("own_word_queries".into(), json!(st.own_word_queries));
            c.insert("distinct_index_states".into(), json!(st.index_states.len()));
        }
        if prop == "C18" {
            c.insert("max_simultaneously_open_queries".into(), json!(st.max_open));
            c.insert("distinct_step_orders".into(), json!(st.step_orders.len()));
        }
    }
    let ev = json!({
        "property_id": prop,
        "tier": if o.tier == "thorough" { "thorough" } else { "quick" },
        "seed": o.seed,
        "level": level,
        "coverage": coverage,
        "assumptions": [
            "SIGKILL semantics of the local file system: completed writes, renames and unlinks survive, nothing else (the property's fault model is a killed run, not power loss)",
            "tantivy's Index::open_in_dir defines whether an index directory 'opens'",
            "segment order inside tantivy is a function of segment sizes when these are pairwise distinct (plans are repaired to guarantee it; checked by the determinism self-test)",
            "the harness decodes the shipped facts from the repository's db/*.bin.gz with the library's own Constant type"
        ],
        "wall_s": wall,
        "violations": violations
    });
    let dir = o.out.join("evidence");
    let _ = std::fs::create_dir_all(&dir);
    let path = dir.join(format!("{prop}.json"));
    if let Err(e) = std::fs::write(&path, serde_json::to_vec_pretty(&ev).unwrap()) {
        harness_fail(&format!("{}: {e}", path.display()));
    }
}

fn cmd_replay(o: &Opts) -> i32 {
    let Some(file) = &o.file else { harness_fail("usage: simctl replay <file>") };
    let text = std::fs::read_to_string(file).unwrap_or_else(|e| harness_fail(&format!("{file}: {e}")));
    let v: Value = serde_json::from_str(&text).unwrap_or_else(|e| harness_fail(&format!("{file}: {e}")));
    let h: History = serde_json::from_value(v.get("history").cloned().unwrap_or(Value::Null)).unwrap_or_else(|e| harness_fail(&format!("{file}: history: {e}")));
    let clause = v.get("clause").and_then(|c| c.as_str()).unwrap_or("").to_string();
    let scratch_root = scratch_root();
    let scratch = Scratch(PathBuf::from(scratch_root).join(format!("verif-sim-{}", std::process::id())));
    let ctx = match setup(o, &scratch.0, h.property == "C15") {
        Ok(c) => c,
        Err(why) => {
            if clause == "C15.clean-start" {
                println!("reproduced [{clause}]: {why}");
                println!("VIOLATION property=C15 replay={file}");
                return 1;
            }
            harness_fail(&format!("reference start failed: {why}"));
        }
    };
    let trace = run_history(&ctx, &h, &ctx.scratch.join("replay"), 0);
    if !trace.harness_errors.is_empty() {
        harness_fail(&trace.harness_errors.join("; "));
    }
    let vs = judge(&ctx, &h, &trace);
    for (i, s) in h.steps.iter().enumerate() {
        let so = &trace.steps[i];
        let what = match s {
            Step::Fabricate { .. } => "fabricate".to_string(),
            Step::Damage { d } => format!("damage {d:?}"),
            Step::Start { session } => format!(
                "start [{}] -> {:?}{}",
                session.faults.iter().map(gen::fault_label).collect::<Vec<_>>().join("+"),
                so.child.as_ref().map(|c| c.exit.clone()),
                so.child.as_ref().and_then(|c| c.fault_fired()).map(|f| format!(" fired {}@{}#{}", f.0, f.1, f.2)).unwrap_or_default()
            ),
            Step::Contended { hold_ms, .. } => format!(
                "start while another instance holds the index writer lock for {hold_ms} ms -> {:?}{}",
                so.child.as_ref().map(|c| c.exit.clone()),
                so.child.as_ref().and_then(|c| c.fault_fired()).map(|f| format!(" fired {}@{}#{}", f.0, f.1, f.2)).unwrap_or_default()
            ),
            Step::Cli { query, .. } => format!("any {query:?} -> {:?}", so.child.as_ref().map(|c| c.exit.clone())),
            Step::Disk { free_pages, free_inodes } => format!("data file system now has room for {free_pages:?} more pages, {free_inodes:?} more inodes"),
        };
        println!("step {i}: {what}; directory now {}", so.dir.class(ctx.side_b(so.build).1));
    }
    let same: Vec<&Violation> = vs.iter().filter(|x| clause.is_empty() || x.clause == clause).collect();
    if let Some(x) = same.first() {
        println!("reproduced [{}]: {}", x.clause, x.detail);
        println!("VIOLATION property={} replay={file}", x.property);
        1
    } else {
        for x in &vs {
            println!("other violation [{}]: {}", x.clause, x.detail);
        }
        println!("not reproduced: clause {clause:?} holds on this tree");
        0
    }
}

/// Run every history twice (different job slots, hence different CPUs and scratch paths) and
/// compare the canonical traces.
/// Print the histories a run would execute (one JSON document per line), without executing them.
fn cmd_sample(o: &Opts) -> i32 {
    let scratch_root = scratch_root();
    let scratch = Scratch(PathBuf::from(scratch_root).join(format!("verif-sim-{}", std::process::id())));
    let ctx = setup(o, &scratch.0, false).unwrap_or_else(|e| harness_fail(&e));
    for h in histories_for(&ctx, o, o.prop.as_str(), o.tier != "thorough") {
        println!("{}", serde_json::to_string(&h).unwrap_or_default());
    }
    0
}

fn cmd_determinism(o: &Opts) -> i32 {
    let scratch_root = scratch_root();
    let scratch = Scratch(PathBuf::from(scratch_root).join(format!("verif-sim-{}", std::process::id())));
    let ctx = setup(o, &scratch.0, false).unwrap_or_else(|e| harness_fail(&e));
    let n = o.runs.unwrap_or(50);
    let prop = o.prop.as_str();
    let mut hs: Vec<History> = Vec::new();
    if prop == "C15" {
        for i in 0..n {
            let seed = derive(o.seed, "C15-random", i as u64);
            hs.push(gen::c15_random(&ctx, &mut Rng::new(seed), seed, true));
        }
    } else {
        let mut oo = Opts { runs: Some(n), ..parse_opts() };
        oo.prop = prop.to_string();
        hs = histories_for(&ctx, &oo, prop, true);
    }
    let doubled: Vec<History> = hs.iter().flat_map(|h| [h.clone(), h.clone()]).collect();
    let mut canon: Vec<Option<String>> = vec![None; doubled.len()];
    let mut herr = 0;
    run_parallel(&ctx, &doubled, o.jobs, None, |i, _h, trace, _| {
        if !trace.harness_errors.is_empty() {
            herr += 1;
        }
        canon[i] = Some(canonical(&trace));
    });
    let mut diffs = 0;
    for i in 0..hs.len() {
        if canon[2 * i] != canon[2 * i + 1] {
            diffs += 1;
            if diffs <= 3 {
                let a = canon[2 * i].clone().unwrap_or_default();
                let b = canon[2 * i + 1].clone().unwrap_or_default();
                let pos = a.bytes().zip(b.bytes()).position(|(x, y)| x != y).unwrap_or(0);
                let from = pos.saturating_sub(200);
                eprintln!("DIVERGENCE in history {i} ({}):\n  A: ...{}\n  B: ...{}", hs[i].label, &a[from..(pos + 200).min(a.len())], &b[from..(pos + 200).min(b.len())]);
            }
        }
    }
    println!("determinism: property={prop} histories={} executed twice each, divergences={diffs}, harness_errors={herr}", hs.len());
    if diffs > 0 || herr > 0 {
        2
    } else {
        0
    }
}

/// Write a copy of `<repo>/db` to `dst` in which every fact asset has the same name and the same
/// size but other content (one letter of three descriptions changed), for the two-build histories.
// CRC-32 (the one in the gzip trailer), forwards and backwards, so that altered data can be given the
// original's checksum again: a fingerprint of the embedded data that looks at less than the content
// (sizes, lengths, checksums of the container) must not be able to tell the two builds apart, or the
// two-build histories would not test what "written for other data" means.
fn crc_tables() -> ([u32; 256], [u32; 256]) {
    let mut t = [0u32; 256];
    for i in 0..256u32 {
        let mut c = i;
        for _ in 0..8 {
            c = if c & 1 != 0 { 0xedb8_8320 ^ (c >> 1) } else { c >> 1 };
        }
        t[i as usize] = c;
    }
    // r[top byte of t[j]] = j
    let mut r = [0u32; 256];
    for j in 0..256u32 {
        r[(t[j as usize] >> 24) as usize] = j;
    }
    (t, r)
}

fn crc_forward(t: &[u32; 256], mut state: u32, data: &[u8]) -> u32 {
    for b in data {
        state = t[((state ^ *b as u32) & 0xff) as usize] ^ (state >> 8);
    }
    state
}

fn crc_backward(t: &[u32; 256], r: &[u32; 256], mut state: u32, data: &[u8]) -> u32 {
    for b in data.iter().rev() {
        let j = r[(state >> 24) as usize];
        state = ((state ^ t[j as usize]) << 8) | ((j ^ *b as u32) & 0xff);
    }
    state
}

/// Overwrite `data[p..p+4]` so that the CRC-32 of all of `data` becomes `target`.
fn crc_patch(data: &mut [u8], p: usize, target: u32) {
    let (t, r) = crc_tables();
    let a = crc_forward(&t, !0u32, &data[..p]);
    let b = crc_backward(&t, &r, !target, &data[p + 4..]);
    let c = crc_backward(&t, &r, b, &[0, 0, 0, 0]);
    data[p..p + 4].copy_from_slice(&(a ^ c).to_le_bytes());
}

fn crc32(data: &[u8]) -> u32 {
    let (t, _) = crc_tables();
    !crc_forward(&t, !0u32, data)
}

/// The byte ranges of the values of all `description` keys (CBOR text strings) in a raw asset.
fn description_ranges(raw: &[u8]) -> Vec<std::ops::Range<usize>> {
    let needle = b"\x6bdescription";
    let mut out = Vec::new();
    let mut i = 0;
    while i + needle.len() + 3 < raw.len() {
        if &raw[i..i + needle.len()] == needle {
            let h = i + needle.len();
            let (start, len) = match raw[h] {
                b @ 0x60..=0x77 => (h + 1, (b - 0x60) as usize),
                0x78 => (h + 2, raw[h + 1] as usize),
                0x79 => (h + 3, u16::from_be_bytes([raw[h + 1], raw[h + 2]]) as usize),
                _ => (0, 0),
            };
            if len > 0 && start + len <= raw.len() {
                out.push(start..start + len);
            }
            i = h;
        }
        i += 1;
    }
    out
}

/// Give `r` (an altered copy of `raw`, same length) the CRC-32 of `raw` again by rewriting five
/// bytes inside a description text that both copies still share, keeping them printable ASCII.
/// Returns false when no such place is found.
fn restore_crc(raw: &[u8], r: &mut Vec<u8>) -> bool {
    let target = crc32(raw);
    let printable = |b: u8| (0x20..0x7f).contains(&b);
    for range in description_ranges(raw).into_iter().rev() {
        if range.len() < 8 || !range.clone().all(|i| r[i] == raw[i] && printable(r[i])) {
            continue;
        }
        let p = range.start + 1;
        for v in 0x20u8..0x7f {
            let mut c = r.clone();
            c[p] = v;
            crc_patch(&mut c, p + 1, target);
            if c[p + 1..p + 5].iter().all(|b| printable(*b)) && crc32(&c) == target {
                *r = c;
                return true;
            }
        }
    }
    false
}

fn cmd_mkdata(o: &Opts) -> i32 {
    use std::io::{Read, Write};
    let args: Vec<String> = std::env::args().skip(2).collect();
    if args.len() != 2 {
        harness_fail("usage: simctl mkdata <repo> <dst-db-dir>");
    }
    let _ = o;
    let src = Path::new(&args[0]).join("db");
    let dst = Path::new(&args[1]);
    std::fs::create_dir_all(dst).unwrap_or_else(|e| harness_fail(&e.to_string()));
    let mut altered = 0;
    let mut other_size = 0;
    let mut fact_index = 0usize;
    let mut fallback: Vec<(String, Vec<u8>)> = Vec::new();
    let mut names: Vec<String> = std::fs::read_dir(&src).unwrap_or_else(|e| harness_fail(&e.to_string())).flatten().map(|e| e.file_name().to_string_lossy().to_string()).collect();
    names.sort();
    for n in names {
        let orig = std::fs::read(src.join(&n)).unwrap_or_else(|e| harness_fail(&e.to_string()));
        let mut out = orig.clone();
        // VERIF_MKDATA_ONLY=first|second: only that fact asset changes (a partial update of the data;
        // with three assets the second one is neither the first nor the last to be indexed)
        let only: Option<usize> = match std::env::var("VERIF_MKDATA_ONLY").as_deref() {
            Ok("first") => Some(0),
            Ok("second") => Some(1),
            _ => None,
        };
        let is_fact = n.ends_with(".bin.gz") && n != "sources.bin.gz";
        let this_fact = fact_index;
        if is_fact {
            fact_index += 1;
        }
        if is_fact && only.map(|k| k == this_fact).unwrap_or(true) {
            let mut raw = Vec::new();
            flate2::read::GzDecoder::new(&orig[..]).read_to_end(&mut raw).unwrap_or_else(|e| harness_fail(&e.to_string()));
            // change letters inside description strings, in place, keeping every length
            for attempt in 0..40u8 {
                let mut r = raw.clone();
                let needle = b"description";
                let mut hits = 0;
                let mut i = 0;
                while i + needle.len() + 8 < r.len() && hits < 3 {
                    if &r[i..i + needle.len()] == needle {
                        // the text of the description follows its CBOR string header
                        let from = i + needle.len() + 3 + (attempt as usize % 5);
                        if let Some(j) = (from..(from + 12).min(r.len())).find(|j| r[*j].is_ascii_lowercase()) {
                            r[j] = if r[j] == b'z' { b'a' } else { r[j] + 1 };
                            hits += 1;
                            i += 4000 + attempt as usize * 37;
                            continue;
                        }
                    }
                    i += 1;
                }
                if hits == 0 {
                    break;
                }
                // same uncompressed length already; now the same CRC-32 as well
                if !restore_crc(&raw, &mut r) {
                    continue;
                }
                let mut enc = flate2::GzBuilder::new().write(Vec::new(), flate2::Compression::best());
                enc.write_all(&r).unwrap();
                let z = enc.finish().unwrap();
                if attempt == 39 && out == orig {
                    // no candidate of the original compressed size: remember one of another size (names,
                    // uncompressed length and CRC-32 still agree). It is used when this is the one asset
                    // that has to change, or when no asset at all could keep its size; otherwise the
                    // asset stays as shipped, so that the other build's data differs from this one's in
                    // nothing but content: same names, sizes, lengths, CRC-32 and time stamps.
                    if only.is_some() {
                        out = z.clone();
                        altered += 1;
                        other_size += 1;
                    } else {
                        fallback.push((n.clone(), z.clone()));
                    }
                    break;
                }
                if z.len() <= orig.len() {
                    let pad = orig.len() - z.len();
                    let z = if pad == 0 {
                        z
                    } else {
                        // a gzip header comment of pad-1 bytes plus its terminator
                        let mut enc = flate2::GzBuilder::new().comment(vec![b'v'; pad - 1]).write(Vec::new(), flate2::Compression::best());
                        enc.write_all(&r).unwrap();
                        enc.finish().unwrap()
                    };
                    if z.len() == orig.len() {
                        out = z;
                        altered += 1;
                        break;
                    }
                }
            }
        }
        std::fs::write(dst.join(&n), &out).unwrap_or_else(|e| harness_fail(&e.to_string()));
    }
    if altered == 0 {
        for (n, z) in &fallback {
            std::fs::write(dst.join(n), z).unwrap_or_else(|e| harness_fail(&e.to_string()));
            altered += 1;
            other_size += 1;
        }
    }
    // a partial update also ships one more asset (a copy of the largest one, under a name that
    // sorts last): the list of assets differs between the two builds, not only their content
    let mut extra = 0;
    if std::env::var("VERIF_MKDATA_ONLY").map(|v| v == "first" || v == "second").unwrap_or(false) {
        let mut best: Option<(u64, std::path::PathBuf)> = None;
        for e in std::fs::read_dir(&src).unwrap_or_else(|e| harness_fail(&e.to_string())).flatten() {
            let n = e.file_name().to_string_lossy().to_string();
            if n.ends_with(".bin.gz") && n != "sources.bin.gz" {
                let len = e.metadata().map(|m| m.len()).unwrap_or(0);
                if best.as_ref().map(|(l, _)| len > *l).unwrap_or(true) {
                    best = Some((len, e.path()));
                }
            }
        }
        if let Some((_, path)) = best {
            std::fs::copy(&path, dst.join("zz-verif-extra.bin.gz")).unwrap_or_else(|e| harness_fail(&e.to_string()));
            let one = shipped::load(&args[0]).unwrap_or_else(|e| harness_fail(&e));
            let name = path.file_name().map(|n| n.to_string_lossy().to_string()).unwrap_or_default();
            extra = one.assets.iter().find(|(n, _)| *n == name).map(|(_, k)| *k).unwrap_or(0);
        }
    }
    // the result must still decode, with as many constants, and differ
    let a = shipped::load(&args[0]).unwrap_or_else(|e| harness_fail(&e));
    let parent = dst.parent().map(|p| p.display().to_string()).unwrap_or_default();
    let b = shipped::load(&parent).unwrap_or_else(|e| harness_fail(&format!("altered data does not decode: {e}")));
    let differing = a.constants.iter().zip(b.constants.iter()).filter(|(x, y)| shipped::canon(x) != shipped::canon(y)).count();
    println!("mkdata: {altered} asset(s) altered in place (same names, uncompressed lengths and CRC-32; {} of them also the same compressed size), {} constants, {differing} differ", altered - other_size, b.constants.len());
    if extra > 0 {
        println!("mkdata: one more asset with {extra} constants (zz-verif-extra.bin.gz)");
    }
    if altered == 0 || differing == 0 || a.constants.len() + extra != b.constants.len() {
        return 2;
    }
    0
}

fn main() {
    let o = parse_opts();
    let code = match o.cmd.as_str() {
        "run" => cmd_run(&o),
        "replay" => cmd_replay(&o),
        "determinism" => cmd_determinism(&o),
        "mkdata" => cmd_mkdata(&o),
        "sample" => cmd_sample(&o),
        _ => {
            eprintln!("usage: simctl run --prop <C14|C15|C16|C18|C19> [--tier quick|thorough] [--seed N] [--jobs N] | replay <file> | determinism --prop <id> [--runs N]");
            2
        }
    };
    std::process::exit(code);
}

//! History generators: the enumerated fault/state product for C15 and the seeded, swarm-style
//! generators for every claimed property. Every choice is drawn from the `Rng` passed in.

use crate::dirstate::{Damage, IndexSpec, MetaSpec, StateSpec};
use crate::history::{Ctx, History, Step};
use crate::plan::random_plan;
use crate::rng::Rng;
use crate::script::*;

// ---------------------------------------------------------------------------------------------
// directory states

pub fn state(data_dir: bool, meta: MetaSpec, index: IndexSpec) -> StateSpec {
    StateSpec { data_dir, meta, index }
}

pub fn garbage_kinds(ctx: &Ctx) -> Vec<(String, String)> {
    let v = serde_json::to_string(&ctx.reference.version).unwrap();
    let h = serde_json::to_string(&ctx.reference.hash).unwrap();
    vec![
        ("text".into(), "garbage".into()),
        ("array".into(), "[]".into()),
        ("null".into(), "null".into()),
        ("wrong-types".into(), "{\"version\":5,\"database_hash\":[]}".into()),
        ("version-only".into(), format!("{{\"version\":{v}}}")),
        ("hash-only".into(), format!("{{\"database_hash\":{h}}}")),
        ("nulls".into(), "{\"version\":null,\"database_hash\":null}".into()),
        ("binary".into(), "\u{0}\u{1}\u{fffd}{{{".into()),
        ("trailing".into(), format!("{} trailing", ctx.reference.meta_text)),
        ("nested".into(), format!("{{\"meta\":{}}}", ctx.reference.meta_text)),
    ]
}

/// Seeded garbage for `meta.json`: text in several scripts (multi-byte characters at every byte
/// offset), JSON of the wrong shape, very long and deeply nested values, byte-order marks, bytes that
/// are not UTF-8 at all.
/// Returns the content and whether it still *reads as current metadata* (re-spaced, or with an extra
/// key): such content may only stand over a complete index - current metadata over a foreign index
/// is not a state any listed cause produces.
pub fn random_garbage(ctx: &Ctx, rng: &mut Rng) -> (MetaSpec, bool) {
    let scripts: [&str; 6] = ["é", "日本語", "ß→∞", "🦀", "Ω⋅m²", "абв"];
    fn ascii(rng: &mut Rng, lo: usize, hi: usize) -> String {
        let n = rng.range(lo, hi);
        (0..n).map(|_| char::from(0x20 + rng.below(0x5f) as u8)).collect()
    }
    let mixed = |rng: &mut Rng, lo: usize, hi: usize| -> String {
        let n = rng.range(lo, hi);
        let mut t = String::new();
        while t.len() < n {
            if rng.chance(1, 3) {
                t.push_str(scripts[rng.below(scripts.len())]);
            } else {
                t.push(char::from(0x20 + rng.below(0x5f) as u8));
            }
        }
        t
    };
    let v = serde_json::to_string(&ctx.reference.version).unwrap();
    let h = serde_json::to_string(&ctx.reference.hash).unwrap();
    let meta = &ctx.reference.meta_text;
    let kind = rng.below(12);
    let reads_as_current = kind == 8 || kind == 9;
    let text = match kind {
        0 => ascii(rng, 1, 300),
        1 | 2 => {
            let lead = ascii(rng, 0, 70);
            format!("{lead}{}", mixed(rng, 1, 200))
        }
        3 => format!("{{\"version\":{},\"database_hash\":{h}}}", serde_json::to_string(&mixed(rng, 1, 120)).unwrap()),
        4 => format!("{{\"version\":{v},\"database_hash\":{}}}", serde_json::to_string(&mixed(rng, 1, 120)).unwrap()),
        5 => format!("{}{meta}", '\u{feff}'),
        6 => {
            let open = rng.range(1, 300);
            let close = rng.range(0, 300);
            format!("{}{}", "[".repeat(open), "]".repeat(close))
        }
        7 => {
            let digits = rng.range(1, 400);
            format!("{{\"version\":{},\"database_hash\":{}}}", "9".repeat(digits), rng.range(0, 9))
        }
        8 => meta.replace(':', ": \r\n\t ").replace(',', " ,\n"),
        9 => {
            let key = mixed(rng, 1, 40).replace(['"', '\\'], "");
            format!("{{\"version\":{v},\"database_hash\":{h},\"{key}\":{}}}", rng.range(0, 99))
        }
        10 => {
            let cut = rng.below(meta.len());
            format!("{}{}", &meta[..cut], mixed(rng, 1, 90))
        }
        _ => {
            // not UTF-8 at all
            let n = rng.range(1, 200);
            let hex: String = (0..n).map(|_| format!("{:02x}", if rng.chance(1, 2) { 0x80 + rng.below(0x80) } else { rng.below(0x100) })).collect();
            return (MetaSpec::Hex { hex }, false);
        }
    };
    (MetaSpec::Text { text }, reads_as_current)
}

/// The listed prior states. `thorough` = every torn length and every garbage kind over both index
/// variants; otherwise one representative per class.
pub fn c15_states(ctx: &Ctx, thorough: bool) -> Vec<(String, StateSpec)> {
    use IndexSpec::*;
    let mut v: Vec<(String, StateSpec)> = vec![
        ("nothing".into(), state(false, MetaSpec::Absent, Absent)),
        ("absent".into(), state(true, MetaSpec::Absent, Absent)),
        ("complete".into(), state(true, MetaSpec::Current, Complete)),
        // ... with the metadata in its plainest form: the two fields and nothing else (what every
        // release so far has written, whatever else the tree under test may add to the file)
        ("complete(two-field metadata)".into(), state(true, MetaSpec::Text { text: format!("{{\"version\":\"{}\",\"database_hash\":\"{}\"}}", ctx.reference.version, ctx.reference.hash) }, Complete)),
        ("other-version+complete".into(), state(true, MetaSpec::OtherVersion, Complete)),
        ("other-version+foreign".into(), state(true, MetaSpec::OtherVersionOtherHash, Foreign)),
        ("other-version+other-schema".into(), state(true, MetaSpec::OtherVersionOtherHash, ForeignSchema)),
        ("near-version+other-schema".into(), state(true, MetaSpec::NearVersion, ForeignSchema)),
        // another release killed during its first build: an index of its schema, no metadata yet
        ("meta-missing+other-schema".into(), state(true, MetaSpec::Absent, ForeignSchema)),
        ("meta-garbage(text)+other-schema".into(), state(true, MetaSpec::Text { text: "garbage".into() }, ForeignSchema)),
        ("other-data+foreign".into(), state(true, MetaSpec::OtherHash, Foreign)),
        ("meta-missing+complete".into(), state(true, MetaSpec::Absent, Complete)),
        ("meta-missing+foreign".into(), state(true, MetaSpec::Absent, Foreign)),
        // an index that equals a complete one by every coarse measure (schema, number of documents,
        // words) but holds the payloads of another edition of the data
        ("meta-missing+same-shape".into(), state(true, MetaSpec::Absent, ForeignSameShape)),
        ("other-data+same-shape".into(), state(true, MetaSpec::OtherHash, ForeignSameShape)),
        ("other-version+same-shape".into(), state(true, MetaSpec::OtherVersionOtherHash, ForeignSameShape)),
        ("index-missing+current".into(), state(true, MetaSpec::Current, Absent)),
        ("index-missing+other-data".into(), state(true, MetaSpec::OtherHash, Absent)),
        ("index-missing+other-version".into(), state(true, MetaSpec::OtherVersion, Absent)),
    ];
    let len = ctx.reference.meta_text.len();
    if thorough {
        v.push(("other-data+complete".into(), state(true, MetaSpec::OtherHash, Complete)));
        v.push(("near-version+foreign".into(), state(true, MetaSpec::NearVersion, Foreign)));
        v.push(("near-version+complete".into(), state(true, MetaSpec::NearVersion, Complete)));
        v.push(("near-version+same-shape".into(), state(true, MetaSpec::NearVersion, ForeignSameShape)));
        v.push(("meta-garbage(text)+same-shape".into(), state(true, MetaSpec::Text { text: "garbage".into() }, ForeignSameShape)));
        v.push(("meta-torn(half)+same-shape".into(), state(true, MetaSpec::CurrentPrefix { bytes: len / 2 }, ForeignSameShape)));
        for b in 0..len {
            v.push((format!("meta-torn({b})+foreign"), state(true, MetaSpec::CurrentPrefix { bytes: b }, Foreign)));
            v.push((format!("meta-torn({b})+complete"), state(true, MetaSpec::CurrentPrefix { bytes: b }, Complete)));
            if b % 7 == 3 {
                v.push((format!("meta-torn({b})+other-schema"), state(true, MetaSpec::CurrentPrefix { bytes: b }, ForeignSchema)));
            }
        }
        for (k, t) in garbage_kinds(ctx) {
            v.push((format!("meta-garbage({k})+foreign"), state(true, MetaSpec::Text { text: t.clone() }, Foreign)));
            v.push((format!("meta-garbage({k})+complete"), state(true, MetaSpec::Text { text: t.clone() }, Complete)));
            if k != "version-only" {
                // metadata naming *this* version over an index of another release's schema cannot
                // arise (same version, same schema): asserting on it would ask more than the property
                v.push((format!("meta-garbage({k})+other-schema"), state(true, MetaSpec::Text { text: t.clone() }, ForeignSchema)));
            }
            v.push((format!("meta-garbage({k})+index-missing"), state(true, MetaSpec::Text { text: t }, Absent)));
        }
    } else {
        for b in [0, len / 2, len - 1] {
            v.push((format!("meta-torn({b})+foreign"), state(true, MetaSpec::CurrentPrefix { bytes: b }, Foreign)));
        }
        v.push((format!("meta-torn({})+other-schema", len / 3), state(true, MetaSpec::CurrentPrefix { bytes: len / 3 }, ForeignSchema)));
        for (k, t) in garbage_kinds(ctx).into_iter().filter(|(k, _)| k == "text" || k == "hash-only" || k == "version-only") {
            v.push((format!("meta-garbage({k})+foreign"), state(true, MetaSpec::Text { text: t }, Foreign)));
        }
    }
    v
}

// ---------------------------------------------------------------------------------------------
// sessions

/// The C15 session: open the on-disk database, build a fresh in-memory one in the same process,
/// ask both the same phrases. Every build uses the canonical plan on one CPU.
pub fn c15_session(ctx: &Ctx, faults: Vec<Fault>, subset: Option<Vec<usize>>) -> Session {
    c15_session_ordered(ctx, faults, subset, false)
}

/// `mem_first`: the in-memory reference database is built before the on-disk one is opened (an
/// in-memory session must not touch the data directory).
pub fn c15_session_ordered(ctx: &Ctx, faults: Vec<Fault>, subset: Option<Vec<usize>>, mem_first: bool) -> Session {
    let disk = Op::Open { slot: 0, mode: Mode::Disk, plan: Plan::default() };
    let mem = Op::Open { slot: 1, mode: Mode::Mem, plan: Plan::default() };
    let (a, b) = if mem_first { (mem, disk) } else { (disk, mem) };
    ctx.session(
        1,
        faults,
        vec![
            a,
            b,
            Op::Ask { slot: 0, phrases: vec![], file: Some(ctx.qprime_file.display().to_string()), subset: subset.clone(), detail: false },
            Op::Ask { slot: 1, phrases: vec![], file: Some(ctx.qprime_file.display().to_string()), subset, detail: false },
        ],
    )
}

/// Phrase subset for the quick tier: a seeded sample that always contains the fake phrases.
pub fn qprime_subset(ctx: &Ctx, rng: &mut Rng, n: usize) -> Option<Vec<usize>> {
    let total = ctx.qprime.len();
    if n >= total {
        return None;
    }
    let fakes = crate::dirstate::FAKE_PHRASES.len();
    // the fake phrases and the tie phrases are always asked
    let mut idx: Vec<usize> = (total - fakes - ctx.qprime_ties..total).collect();
    let n = n + ctx.qprime_ties;
    while idx.len() < n {
        let i = rng.below(total - fakes);
        if !idx.contains(&i) {
            idx.push(i);
        }
    }
    idx.sort();
    Some(idx)
}

pub fn c15_cell(ctx: &Ctx, tag: &str, st: &StateSpec, faults: Vec<Fault>, subset: Option<Vec<usize>>, seed: u64) -> History {
    let label = format!(
        "{tag} x {}",
        faults
            .iter()
            .map(|f| match f {
                Fault::Kill { point, k } => format!("kill@{point}#{k}"),
                Fault::Fail { point, k, interrupted } => format!("{}@{point}#{k}", if *interrupted { "eintr" } else { "fail" }),
                Fault::FailKind { point, k, error: kind } => format!("fail({kind})@{point}#{k}"),
                Fault::ShortWrites { max } => format!("short-writes({max})"),
                Fault::Syscall { call, when, errno } => format!("sys-{}@{call}#{when}", errno.clone().unwrap_or_else(|| "kill".into())),
            })
            .collect::<Vec<_>>()
            .join("+")
    );
    let mut steps = vec![Step::Fabricate { state: st.clone() }];
    if !faults.is_empty() {
        steps.push(Step::Start { session: c15_session(ctx, faults, subset.clone()) });
    }
    steps.push(Step::Start { session: c15_session_ordered(ctx, vec![], subset.clone(), seed % 2 == 1) });
    steps.push(Step::Start { session: c15_session(ctx, vec![], subset) });
    History { property: "C15".into(), seed, label, steps }
}

/// A start on a data file system that has room for only `free_pages` more pages / `free_inodes`
/// more files than the prior state occupies (a real ENOSPC wherever the capacity runs out), then,
/// with space restored, two undisturbed starts.
pub fn c15_disk_cell(ctx: &Ctx, tag: &str, st: &StateSpec, free_pages: Option<u64>, free_inodes: Option<u64>, subset: Option<Vec<usize>>, seed: u64) -> History {
    let f = |x: Option<u64>| x.map(|v| v.to_string()).unwrap_or_else(|| "plenty".into());
    let label = format!("{tag} x disk with {} free pages, {} free inodes", f(free_pages), f(free_inodes));
    let steps = vec![
        Step::Fabricate { state: st.clone() },
        Step::Disk { free_pages, free_inodes },
        Step::Start { session: c15_session(ctx, vec![], subset.clone()) },
        Step::Disk { free_pages: None, free_inodes: None },
        Step::Start { session: c15_session_ordered(ctx, vec![], subset.clone(), seed % 2 == 1) },
        Step::Start { session: c15_session(ctx, vec![], subset) },
    ];
    History { property: "C15".into(), seed, label, steps }
}

/// All hook points with the number of hits a full rebuild produces (upper bounds for `k`).
pub fn all_points(ctx: &Ctx) -> Vec<(&'static str, usize)> {
    vec![
        ("open.start", 1),
        ("open.config_read", 1),
        ("index.before_open", 1),
        ("index.before_remove", 1),
        ("index.meta_invalidated", 1),
        ("index.removed", 1),
        ("index.dir_created", 1),
        ("index.ready", 1),
        ("rebuild.meta_invalidated", 1),
        ("rebuild.start", 1),
        ("rebuild.writer_created", 1),
        ("rebuild.cleared", 1),
        ("rebuild.asset_start", ctx.shipped.assets.len()),
        ("rebuild.before_add", ctx.expected_docs),
        ("rebuild.after_add", ctx.expected_docs),
        ("rebuild.before_commit", 1),
        ("rebuild.committed", 1),
        ("rebuild.reloaded", 1),
        ("meta.before_create", 1),
        ("meta.created", 1),
        ("meta.write", 17),
        ("meta.written", 1),
        ("open.done", 1),
    ]
}

/// The values of `k` to enumerate for a point that was hit `count` times by the disk build.
pub fn k_samples(ctx: &Ctx, point: &str, count: usize, thorough: bool) -> Vec<usize> {
    if count <= 1 {
        return vec![0];
    }
    let mut ks: Vec<usize> = Vec::new();
    if point == "meta.write" || point == "rebuild.asset_start" {
        if thorough {
            ks.extend(0..count);
        } else {
            ks.extend([0, count / 2, count - 1]);
        }
    } else {
        ks.extend([0, count - 1]);
        if thorough {
            ks.extend([1, count / 2]);
            let mut acc = 0;
            for (_, n) in &ctx.shipped.assets {
                acc += n;
                if acc > 0 && acc <= count {
                    ks.push(acc - 1);
                    if acc < count {
                        ks.push(acc);
                    }
                }
            }
            let step = (count / 12).max(1);
            ks.extend((0..count).step_by(step));
        } else {
            ks.push(count / 2);
        }
    }
    ks.retain(|k| *k < count);
    ks.sort();
    ks.dedup();
    ks
}

pub const ERROR_KINDS: [&str; 10] = ["permission_denied", "not_found", "already_exists", "would_block", "invalid_data", "unexpected_eof", "out_of_memory", "timed_out", "write_zero", "unsupported"];

fn random_fault(ctx: &Ctx, rng: &mut Rng) -> Vec<Fault> {
    let points = all_points(ctx);
    let (point, count) = if rng.chance(1, 2) {
        // bias towards the rebuild and the metadata write
        let sub: Vec<&(&str, usize)> = points.iter().filter(|(p, _)| p.starts_with("rebuild.") || p.starts_with("meta.") || *p == "index.ready").collect();
        **rng.pick(&sub)
    } else {
        *rng.pick(&points)
    };
    let k = if count <= 1 { 0 } else if rng.chance(1, 4) { *rng.pick(&[0, count - 1]) } else { rng.below(count) };
    let mut out = Vec::new();
    match rng.below(20) {
        0..=10 => out.push(Fault::Kill { point: point.to_string(), k }),
        11..=13 => out.push(Fault::Fail { point: point.to_string(), k, interrupted: false }),
        14..=16 => out.push(Fault::FailKind { point: point.to_string(), k, error: rng.pick(&ERROR_KINDS).to_string() }),
        17 => out.push(Fault::Fail { point: "meta.write".into(), k: rng.below(17), interrupted: true }),
        18 => out.push(Fault::ShortWrites { max: rng.range(1, 5) }),
        _ => {
            out.push(Fault::ShortWrites { max: rng.range(1, 3) });
            out.push(Fault::Kill { point: "meta.write".into(), k: rng.below(40) });
        }
    }
    out
}

/// Damage for directories that may hold an index of another release's schema: nothing that makes
/// the metadata name *this* version (that combination cannot arise, see `c15_states`).
pub fn random_damage_keeping_version_honest(ctx: &Ctx, rng: &mut Rng) -> Damage {
    loop {
        let d = random_damage(ctx, rng);
        let claims_this_version = match &d {
            Damage::StaleHash => true,
            Damage::GarbleMeta { text } => text.contains(&format!("\"version\":{}", serde_json::to_string(&ctx.reference.version).unwrap())),
            _ => false,
        };
        if !claims_this_version {
            return d;
        }
    }
}

pub fn random_damage(ctx: &Ctx, rng: &mut Rng) -> Damage {
    match rng.below(8) {
        0 => Damage::DeleteMeta,
        1 => Damage::TruncateMeta { bytes: rng.below(ctx.reference.meta_text.len().max(1)) },
        2 => Damage::GarbleMeta { text: rng.pick(&garbage_kinds(ctx)).1.clone() },
        3 => Damage::DeleteIndexDir,
        4 => Damage::DeleteDataDir,
        5 => Damage::StaleHash,
        6 => Damage::StaleVersion,
        _ => Damage::DeleteIndexDir,
    }
}

/// Seeded C15 history of depth 2..=4: faults are placed inside the recovery triggered by the
/// previous fault or damage.
pub fn c15_random(ctx: &Ctx, rng: &mut Rng, seed: u64, quick: bool) -> History {
    let states = c15_states(ctx, true);
    let (tag, st) = rng.pick(&states).clone();
    let subset = if quick { qprime_subset(ctx, rng, 60) } else { qprime_subset(ctx, rng, 250) };
    let depth = rng.range(2, 4);
    let other_schema = st.index == IndexSpec::ForeignSchema;
    let mut steps = vec![Step::Fabricate { state: st }];
    let mut label = format!("{tag}");
    for _ in 0..depth {
        if rng.chance(3, 10) {
            let d = if other_schema { random_damage_keeping_version_honest(ctx, rng) } else { random_damage(ctx, rng) };
            label.push_str(&format!(" / {d:?}"));
            steps.push(Step::Damage { d });
        }
        let faults = random_fault(ctx, rng);
        label.push_str(&format!(" / {}", faults.iter().map(fault_label).collect::<Vec<_>>().join("+")));
        if rng.chance(1, 5) {
            // the same fault delivered to the real program through the hook module's own injector
            let mut env = Vec::new();
            for f in &faults {
                match f {
                    Fault::Kill { point, k } => env.push(("ANYTHING_VERIF_KILL_AT".to_string(), format!("{point}#{k}"))),
                    Fault::Fail { point, k, interrupted: false } => env.push(("ANYTHING_VERIF_FAIL_AT".to_string(), format!("{point}#{k}"))),
                    _ => {}
                }
            }
            steps.push(Step::Cli { query: "1 + 1".into(), exact: false, describe: false, env, split: false, inject: None, tty: false });
        } else {
            steps.push(Step::Start { session: c15_session(ctx, faults, subset.clone()) });
        }
    }
    let mem_first = rng.chance(1, 2);
    steps.push(Step::Start { session: c15_session_ordered(ctx, vec![], subset.clone(), mem_first) });
    steps.push(Step::Start { session: c15_session(ctx, vec![], subset) });
    History { property: "C15".into(), seed, label, steps }
}

/// Long lives of one data directory: 10 to 24 steps - undisturbed starts (on-disk first or in-memory
/// first), the real program, in-memory-only sessions, damage between starts, now and then a fault -
/// with the directory invariant after every step and the recovery oracle at every undisturbed start.
/// Anything that accumulates from start to start (generations, segments, leftovers) has time to show.
pub fn c15_soak(ctx: &Ctx, rng: &mut Rng, seed: u64, quick: bool) -> History {
    let subset = if quick { qprime_subset(ctx, rng, 40) } else { qprime_subset(ctx, rng, 200) };
    let n = rng.range(10, 24);
    let mut steps = vec![Step::Fabricate { state: state(true, MetaSpec::Absent, IndexSpec::Absent) }];
    for _ in 0..n {
        match rng.below(12) {
            0 => steps.push(Step::Damage { d: random_damage(ctx, rng) }),
            1 => {
                let faults = random_fault(ctx, rng);
                steps.push(Step::Start { session: c15_session(ctx, faults, subset.clone()) });
            }
            2 | 3 => steps.push(Step::Cli { query: "1 + 1".into(), exact: false, describe: false, env: vec![], split: false, inject: None, tty: false }),
            4 => steps.push(Step::Start { session: ctx.session(1, vec![], vec![Op::Open { slot: 1, mode: Mode::Mem, plan: Plan::default() }]) }),
            _ => steps.push(Step::Start { session: c15_session_ordered(ctx, vec![], subset.clone(), rng.chance(1, 2)) }),
        }
    }
    steps.push(Step::Start { session: c15_session(ctx, vec![], subset.clone()) });
    steps.push(Step::Start { session: c15_session(ctx, vec![], subset) });
    History { property: "C15".into(), seed, label: format!("a long life of one directory ({} steps)", n + 2), steps }
}

/// Deeper histories that mix every fault kind the simulator has: hook-level kills and errors,
/// system-call level kills and errnos (when `strace` is usable), a full disk (when `mount` is), and
/// damage in between; each fault lands in the recovery from the previous one.
pub fn c15_random_mixed(ctx: &Ctx, rng: &mut Rng, seed: u64, quick: bool, strace: bool, mount: bool) -> History {
    let states = c15_states(ctx, true);
    let (tag, st) = rng.pick(&states).clone();
    let subset = if quick { qprime_subset(ctx, rng, 60) } else { qprime_subset(ctx, rng, 250) };
    let depth = rng.range(2, 4);
    let other_schema = st.index == IndexSpec::ForeignSchema;
    let mut steps = vec![Step::Fabricate { state: st }];
    let mut label = format!("{tag}");
    let sites = syscall_sites();
    let mut used_disk = false;
    for _ in 0..depth {
        if rng.chance(1, 4) {
            let d = if other_schema { random_damage_keeping_version_honest(ctx, rng) } else { random_damage(ctx, rng) };
            label.push_str(&format!(" / {d:?}"));
            steps.push(Step::Damage { d });
        }
        match rng.below(3) {
            0 if strace => {
                let (call, max, errno) = *rng.pick(&sites);
                let when = rng.range(1, max);
                let errno = if rng.chance(1, 2) { Some(errno.to_string()) } else { None };
                let f = Fault::Syscall { call: call.to_string(), when, errno };
                label.push_str(&format!(" / {}", fault_label(&f)));
                steps.push(Step::Start { session: c15_session(ctx, vec![f], subset.clone()) });
            }
            1 if mount => {
                let (p, i) = match rng.below(3) {
                    0 => (Some(rng.range(0, 40) as u64), None),
                    1 => (None, Some(rng.range(0, 16) as u64)),
                    _ => (Some(rng.range(0, 40) as u64), Some(rng.range(0, 16) as u64)),
                };
                label.push_str(&format!(" / disk({p:?},{i:?})"));
                steps.push(Step::Disk { free_pages: p, free_inodes: i });
                steps.push(Step::Start { session: c15_session(ctx, vec![], subset.clone()) });
                // space comes back before anything else happens (damage between starts needs room too)
                steps.push(Step::Disk { free_pages: None, free_inodes: None });
                used_disk = true;
            }
            _ => {
                let faults = random_fault(ctx, rng);
                label.push_str(&format!(" / {}", faults.iter().map(fault_label).collect::<Vec<_>>().join("+")));
                steps.push(Step::Start { session: c15_session(ctx, faults, subset.clone()) });
            }
        }
    }
    let _ = used_disk;
    let mem_first = rng.chance(1, 2);
    steps.push(Step::Start { session: c15_session_ordered(ctx, vec![], subset.clone(), mem_first) });
    steps.push(Step::Start { session: c15_session(ctx, vec![], subset) });
    History { property: "C15".into(), seed, label: format!("mixed: {label}"), steps }
}

/// System calls swept by the ptrace injector: (call, highest `when` to try, errno for the error flavour).
pub fn syscall_sites() -> Vec<(&'static str, usize, &'static str)> {
    syscall_errnos().into_iter().map(|(c, m, e)| (c, m, e[0])).collect()
}

/// The same with every errno tried per call (the first one is the one the quick tier uses most).
pub fn syscall_errnos() -> Vec<(&'static str, usize, Vec<&'static str>)> {
    vec![
        ("openat", 70, vec!["EACCES", "ENOSPC", "EMFILE", "EROFS", "ENOENT"]),
        ("write", 90, vec!["ENOSPC", "EIO", "EDQUOT", "EFBIG"]),
        ("fdatasync", 26, vec!["EIO", "ENOSPC"]),
        ("fsync", 6, vec!["EIO", "ENOSPC"]),
        ("renameat", 14, vec!["EIO", "EACCES", "EXDEV", "ENOSPC"]),
        ("rename", 4, vec!["EIO", "EACCES"]),
        ("mkdir", 6, vec!["ENOSPC", "EACCES", "EROFS", "EEXIST"]),
        ("unlink", 24, vec!["EIO", "EACCES", "EPERM", "EBUSY"]),
        ("unlinkat", 24, vec!["EIO", "EACCES", "EPERM", "EBUSY", "ENOTEMPTY"]),
        ("rmdir", 6, vec!["EACCES", "EBUSY", "ENOTEMPTY"]),
        ("flock", 8, vec!["EAGAIN", "ENOLCK"]),
        ("mmap", 70, vec!["ENOMEM"]),
        ("ftruncate", 6, vec!["EIO", "EFBIG"]),
    ]
}

/// System calls that may legitimately return EINTR and whose interruption the program must not
/// even notice: (call, highest occurrence to try).
pub fn eintr_sites() -> Vec<(&'static str, usize)> {
    vec![("write", 90), ("openat", 70), ("fdatasync", 26)]
}

/// States from which the system-call sweep starts (each exercises a different recovery path).
pub fn syscall_states(ctx: &Ctx) -> Vec<(String, StateSpec)> {
    use IndexSpec::*;
    let _ = ctx;
    vec![
        ("absent".into(), state(true, MetaSpec::Absent, Absent)),
        ("other-data+foreign".into(), state(true, MetaSpec::OtherHash, Foreign)),
        ("other-version+foreign".into(), state(true, MetaSpec::OtherVersionOtherHash, Foreign)),
        ("index-missing+current".into(), state(true, MetaSpec::Current, Absent)),
    ]
}

pub fn fault_label(f: &Fault) -> String {
    match f {
        Fault::Kill { point, k } => format!("kill@{point}#{k}"),
        Fault::Fail { point, k, interrupted } => format!("{}@{point}#{k}", if *interrupted { "eintr" } else { "fail" }),
        Fault::FailKind { point, k, error: kind } => format!("fail({kind})@{point}#{k}"),
        Fault::ShortWrites { max } => format!("short-writes({max})"),
        Fault::Syscall { call, when, errno } => format!("sys-{}@{call}#{when}", errno.clone().unwrap_or_else(|| "kill".into())),
    }
}

// ---------------------------------------------------------------------------------------------
// C14

fn cpus_choice(rng: &mut Rng) -> usize {
    *rng.pick(&[1usize, 2, 2, 3, 4, 4, 5, 8, 8, 16])
}

fn q14_subset(ctx: &Ctx, rng: &mut Rng, n: usize) -> Option<Vec<usize>> {
    if n >= ctx.q14.len() {
        return None;
    }
    let mut idx = ctx.q14_keep.clone();
    while idx.len() < n {
        let i = rng.below(ctx.q14.len());
        if !idx.contains(&i) {
            idx.push(i);
        }
    }
    idx.sort();
    Some(idx)
}

pub fn c14_random(ctx: &Ctx, rng: &mut Rng, seed: u64, quick: bool) -> History {
    let subset = if quick { q14_subset(ctx, rng, 2000) } else { None };
    let file = Some(ctx.q14_file.display().to_string());
    let ask = |slot: usize| Op::Ask { slot, phrases: vec![], file: file.clone(), subset: subset.clone(), detail: false };
    let sessions = rng.range(3, 5);
    let mut steps = Vec::new();
    let mut label = Vec::new();
    let mut have_dir = false;
    for _ in 0..sessions {
        let cpus = cpus_choice(rng);
        let kind = rng.below(if have_dir { 7 } else { 5 });
        let kind = match (have_dir, kind) {
            (false, 3) => 5,
            (false, 4) => 6,
            (_, k) => k,
        };
        match kind {
            // the directory holds an index written for other data (other documents): rebuilt in place
            6 => {
                steps.push(Step::Fabricate { state: state(true, MetaSpec::OtherHash, IndexSpec::Foreign) });
                steps.push(Step::Start { session: ctx.session(cpus, vec![], vec![Op::Open { slot: 0, mode: Mode::Disk, plan: random_plan(rng) }, ask(0)]) });
                label.push(format!("disk-rebuild over other data ({cpus} cpus)"));
                have_dir = true;
            }
            // an on-disk start that is killed or fails somewhere; what follows must still agree
            5 => {
                let faults = random_fault(ctx, rng);
                label.push(format!("disk start with {}", faults.iter().map(fault_label).collect::<Vec<_>>().join("+")));
                if rng.chance(1, 2) {
                    steps.push(Step::Damage { d: random_damage(ctx, rng) });
                }
                steps.push(Step::Start { session: ctx.session(1, faults, vec![Op::Open { slot: 0, mode: Mode::Disk, plan: Plan::default() }, ask(0)]) });
                have_dir = true;
                if rng.chance(1, 2) {
                    // an in-memory session in between must not change what the next on-disk session sees
                    steps.push(Step::Start { session: ctx.session(cpus, vec![], vec![Op::Open { slot: 0, mode: Mode::Mem, plan: random_plan(rng) }, ask(0)]) });
                    steps.push(Step::Start { session: ctx.session(cpus, vec![], vec![Op::Open { slot: 0, mode: Mode::Disk, plan: random_plan(rng) }, ask(0)]) });
                    label.push("mem ; disk-reopen".into());
                }
            }
            // in-memory: 1..=3 successive builds with independent plans
            0 | 1 => {
                let n = rng.range(1, 3);
                let mut ops = Vec::new();
                for slot in 0..n {
                    ops.push(Op::Open { slot, mode: Mode::Mem, plan: random_plan(rng) });
                    ops.push(ask(slot));
                    if rng.chance(1, 2) {
                        ops.push(Op::Drop { slot });
                    }
                }
                label.push(format!("mem x{n} ({cpus} cpus)"));
                steps.push(Step::Start { session: ctx.session(cpus, vec![], ops) });
            }
            // first on-disk start
            2 => {
                steps.push(Step::Damage { d: Damage::DeleteDataDir });
                steps.push(Step::Start { session: ctx.session(cpus, vec![], vec![Op::Open { slot: 0, mode: Mode::Disk, plan: random_plan(rng) }, ask(0)]) });
                label.push(format!("disk-first ({cpus} cpus)"));
                have_dir = true;
            }
            // reopen
            3 => {
                steps.push(Step::Start { session: ctx.session(cpus, vec![], vec![Op::Open { slot: 0, mode: Mode::Disk, plan: random_plan(rng) }, ask(0)]) });
                label.push(format!("disk-reopen ({cpus} cpus)"));
            }
            // rebuild over an existing directory
            _ => {
                let d = match rng.below(3) {
                    0 => Damage::DeleteMeta,
                    1 => Damage::StaleHash,
                    _ => Damage::StaleVersion,
                };
                label.push(format!("disk-rebuild after {d:?} ({cpus} cpus)"));
                steps.push(Step::Damage { d });
                steps.push(Step::Start { session: ctx.session(cpus, vec![], vec![Op::Open { slot: 0, mode: Mode::Disk, plan: random_plan(rng) }, ask(0)]) });
            }
        }
    }
    // the environment of the process that builds or opens the index is no input to the answers: a
    // quarter of the sessions run with a log level set (and then with the real program's logger)
    for st in steps.iter_mut() {
        if let Step::Start { session } = st {
            if rng.chance(1, 4) {
                session.env.push(("RUST_LOG".into(), rng.pick(&["debug", "anything=debug", "info", "anything=trace", "warn"]).to_string()));
            }
        }
    }
    History { property: "C14".into(), seed, label: label.join(" ; "), steps }
}

// ---------------------------------------------------------------------------------------------
// C16

pub fn c16_random(ctx: &Ctx, rng: &mut Rng, seed: u64, perms: Perms, class: usize) -> History {
    let cpus = cpus_choice(rng);
    let again = Some(seed ^ 0x5eed);
    let own = |slot: usize| Op::OwnWords { slot, perms, only: None, again };
    let mut steps = Vec::new();
    let label;
    match [0usize, 1, 2, 3, 3, 4, 5, 3][class % 8] {
        0 => {
            label = format!("fresh in-memory ({cpus} cpus)");
            steps.push(Step::Start { session: ctx.session(cpus, vec![], vec![Op::Open { slot: 0, mode: Mode::Mem, plan: random_plan(rng) }, own(0)]) });
        }
        1 => {
            label = format!("fresh on-disk, then reopened ({cpus} cpus)");
            steps.push(Step::Start { session: ctx.session(cpus, vec![], vec![Op::Open { slot: 0, mode: Mode::Disk, plan: random_plan(rng) }, own(0)]) });
            steps.push(Step::Start { session: ctx.session(cpus_choice(rng), vec![], vec![Op::Open { slot: 0, mode: Mode::Disk, plan: Plan::default() }, own(0)]) });
        }
        2 => {
            label = format!("rebuilt over foreign data ({cpus} cpus)");
            steps.push(Step::Fabricate { state: state(true, MetaSpec::OtherHash, IndexSpec::Foreign) });
            steps.push(Step::Start { session: ctx.session(cpus, vec![], vec![Op::Open { slot: 0, mode: Mode::Disk, plan: random_plan(rng) }, own(0)]) });
        }
        3 => {
            // mostly faults inside the build itself; if the database opens in spite of an injected
            // failure it must be complete as well
            let style = rng.below(10);
            let faults = if style < 8 {
                let inside: &[&str] = &["rebuild.asset_start", "rebuild.before_add", "rebuild.after_add"];
                let around: &[&str] = &["rebuild.before_commit", "rebuild.cleared", "rebuild.committed", "rebuild.reloaded", "meta.write", "rebuild.writer_created"];
                let point = if style < 6 { *rng.pick(inside) } else { *rng.pick(around) };
                let k = match point {
                    "rebuild.asset_start" => rng.below(ctx.shipped.assets.len().max(1)),
                    "rebuild.before_add" | "rebuild.after_add" => rng.below(ctx.expected_docs.max(1)),
                    "meta.write" => rng.below(17),
                    _ => 0,
                };
                if rng.chance(2, 3) {
                    vec![Fault::Fail { point: point.to_string(), k, interrupted: false }]
                } else {
                    vec![Fault::Kill { point: point.to_string(), k }]
                }
            } else {
                random_fault(ctx, rng)
            };
            label = format!("recovered after {} ({cpus} cpus)", faults.iter().map(fault_label).collect::<Vec<_>>().join("+"));
            let states = c15_states(ctx, false);
            steps.push(Step::Fabricate { state: rng.pick(&states).1.clone() });
            steps.push(Step::Start { session: ctx.session(1, faults, vec![Op::Open { slot: 0, mode: Mode::Disk, plan: Plan::default() }, own(0)]) });
            steps.push(Step::Start { session: ctx.session(cpus, vec![], vec![Op::Open { slot: 0, mode: Mode::Disk, plan: random_plan(rng) }, own(0)]) });
        }
        4 => {
            let states = c15_states(ctx, true);
            let (tag, st) = rng.pick(&states).clone();
            label = format!("started from {tag} ({cpus} cpus)");
            steps.push(Step::Fabricate { state: st });
            steps.push(Step::Start { session: ctx.session(cpus, vec![], vec![Op::Open { slot: 0, mode: Mode::Disk, plan: random_plan(rng) }, own(0)]) });
        }
        _ => {
            label = format!("two in-memory builds in one process ({cpus} cpus)");
            steps.push(Step::Start {
                session: ctx.session(
                    cpus,
                    vec![],
                    vec![
                        Op::Open { slot: 0, mode: Mode::Mem, plan: random_plan(rng) },
                        Op::Open { slot: 1, mode: Mode::Mem, plan: random_plan(rng) },
                        own(1),
                        own(0),
                    ],
                ),
            });
        }
    }
    History { property: "C16".into(), seed, label, steps }
}

/// C14 across a change of the shipped data and back: this build, the other-data build, this build
/// again on one directory (two in-place rebuilds), with reopens and an in-memory session of this build
/// in between. The sessions of this build must agree among themselves whatever the directory has been
/// through.
/// C14 with two instances at once: a directory that needs rebuilding in place (or not at all), a
/// start while another running instance holds the index writer lock, then further sessions. A start
/// that cannot get the lock may fail; whatever sessions do answer must agree.
pub fn c14_contended(ctx: &Ctx, rng: &mut Rng, seed: u64, quick: bool) -> History {
    let subset = if quick { q14_subset(ctx, rng, 2000) } else { None };
    let file = Some(ctx.q14_file.display().to_string());
    let ask = |slot: usize| Op::Ask { slot, phrases: vec![], file: file.clone(), subset: subset.clone(), detail: false };
    let cpus = cpus_choice(rng).max(2);
    let (tag, st) = match rng.below(4) {
        0 => ("a complete directory", state(true, MetaSpec::Current, IndexSpec::Complete)),
        1 => ("an index written for other data (other documents)", state(true, MetaSpec::OtherHash, IndexSpec::Foreign)),
        _ => ("a complete index under a stale data hash", state(true, MetaSpec::OtherHash, IndexSpec::Complete)),
    };
    let hold_ms = *rng.pick(&[2000u64, 3000, 5000]);
    let mut steps = vec![Step::Fabricate { state: st }];
    steps.push(Step::Contended { hold_ms, session: ctx.session(cpus, vec![], vec![Op::Open { slot: 0, mode: Mode::Disk, plan: random_plan(rng) }, ask(0)]) });
    steps.push(Step::Start { session: ctx.session(cpus, vec![], vec![Op::Open { slot: 0, mode: Mode::Disk, plan: random_plan(rng) }, ask(0)]) });
    steps.push(Step::Start { session: ctx.session(1, vec![], vec![Op::Open { slot: 0, mode: Mode::Mem, plan: Plan::default() }, ask(0)]) });
    steps.push(Step::Start { session: ctx.session(cpus, vec![], vec![Op::Open { slot: 0, mode: Mode::Disk, plan: random_plan(rng) }, ask(0)]) });
    History { property: "C14".into(), seed, label: format!("{tag}; a start ({cpus} cpus) beside an instance holding the writer lock for {hold_ms} ms; reopened; in memory; reopened"), steps }
}

/// C15 with two instances at once: from a listed state, a start while another running instance holds
/// the index writer lock (it may fail: that is the fault), then undisturbed starts that must recover.
pub fn c15_contended(ctx: &Ctx, tag: &str, st: &StateSpec, hold_ms: u64, subset: Option<Vec<usize>>, seed: u64) -> History {
    let steps = vec![
        Step::Fabricate { state: st.clone() },
        Step::Contended { hold_ms, session: c15_session_ordered(ctx, vec![], subset.clone(), false) },
        Step::Start { session: c15_session_ordered(ctx, vec![], subset.clone(), false) },
        Step::Start { session: c15_session_ordered(ctx, vec![], subset, true) },
    ];
    History { property: "C15".into(), seed, label: format!("{tag}; a start beside an instance holding the writer lock for {hold_ms} ms; two more starts"), steps }
}

pub fn c14_two_builds(ctx: &Ctx, rng: &mut Rng, seed: u64, quick: bool) -> History {
    let subset = if quick { q14_subset(ctx, rng, 2000) } else { None };
    let file = Some(ctx.q14_file.display().to_string());
    let ask = |slot: usize| Op::Ask { slot, phrases: vec![], file: file.clone(), subset: subset.clone(), detail: false };
    let start = |alt: bool, mode: Mode| {
        let mut s = ctx.session(1, vec![], vec![Op::Open { slot: 0, mode, plan: Plan::default() }, ask(0)]);
        s.alt = alt;
        Step::Start { session: s }
    };
    let mut steps = vec![start(false, Mode::Disk)];
    let rounds = rng.range(1, 3);
    for _ in 0..rounds {
        steps.push(start(true, Mode::Disk));
        if rng.chance(1, 2) {
            steps.push(start(true, Mode::Disk));
        }
        steps.push(start(false, Mode::Disk));
        if rng.chance(1, 2) {
            steps.push(start(false, Mode::Disk));
        }
    }
    steps.push(start(false, Mode::Mem));
    steps.push(start(false, Mode::Disk));
    History { property: "C14".into(), seed, label: format!("this build, the other-data build and back ({rounds}x), reopened, in memory"), steps }
}

/// C16 on a database opened from one listed prior state of the data directory (the very start that
/// has to recover it), and again on the following start.
pub fn c16_state(ctx: &Ctx, tag: &str, st: &StateSpec, perms: Perms, seed: u64) -> History {
    let again = Some(seed ^ 0x5eed);
    let own = |slot: usize| Op::OwnWords { slot, perms, only: None, again };
    let steps = vec![
        Step::Fabricate { state: st.clone() },
        Step::Start { session: ctx.session(1, vec![], vec![Op::Open { slot: 0, mode: Mode::Disk, plan: Plan::default() }, own(0)]) },
        Step::Start { session: ctx.session(1, vec![], vec![Op::Open { slot: 0, mode: Mode::Disk, plan: Plan::default() }, own(0)]) },
    ];
    History { property: "C16".into(), seed, label: format!("started from {tag}, then reopened"), steps }
}

/// C16 on the directory the baseline build of the tool leaves: that build starts (twice when
/// `twice`), then this tree starts and is asked every fact's own words, then again.
pub fn c16_after_base(ctx: &Ctx, perms: Perms, twice: bool, seed: u64) -> History {
    let own = |slot: usize| Op::OwnWords { slot, perms, only: None, again: None };
    let mut b = ctx.session(1, vec![], vec![Op::Open { slot: 0, mode: Mode::Disk, plan: Plan::default() }]);
    b.base = true;
    let mut steps = vec![Step::Start { session: b.clone() }];
    if twice {
        steps.push(Step::Start { session: b });
    }
    steps.push(Step::Start { session: ctx.session(1, vec![], vec![Op::Open { slot: 0, mode: Mode::Disk, plan: Plan::default() }, own(0)]) });
    steps.push(Step::Start { session: ctx.session(1, vec![], vec![Op::Open { slot: 0, mode: Mode::Disk, plan: Plan::default() }, own(0)]) });
    History { property: "C16".into(), seed, label: "a directory left by the baseline build of the tool, then this tree, then reopened".into(), steps }
}

/// C16 on a handle that stays in use while another open in the same process recovers the directory.
pub fn c16_beside(ctx: &Ctx, rng: &mut Rng, seed: u64) -> History {
    let n = ctx.shipped.docs();
    let only: Vec<usize> = (0..60).map(|_| rng.below(n)).collect();
    let hold_point = rng.pick(&["index.ready", "rebuild.start", "rebuild.cleared", "rebuild.before_commit"]).to_string();
    let ops = vec![
        Op::Open { slot: 0, mode: Mode::Disk, plan: Plan::default() },
        Op::OwnWords { slot: 0, perms: Perms::Identity, only: Some(only.clone()), again: None },
        // every other time the second open fails before its commit (what a killed run leaves), and
        // time passes: a minute, an hour, a week
        Op::OpenBeside {
            slot: 1,
            watch_slot: 0,
            hold_point: hold_point.clone(),
            hold_ms: 1700,
            ask_after_ms: 1200,
            only: Some(only.clone()),
            fail_point: if rng.chance(1, 2) { Some(rng.pick(&["rebuild.cleared", "rebuild.before_commit", "rebuild.asset_start"]).to_string()) } else { None },
            advance_s: *rng.pick(&[0u64, 45, 90, 3700, 700_000]),
        },
        Op::OwnWords { slot: 0, perms: Perms::Identity, only: Some(only.clone()), again: None },
        Op::OwnWords { slot: 1, perms: Perms::Identity, only: Some(only), again: None },
    ];
    let steps = vec![Step::Fabricate { state: state(true, MetaSpec::Current, IndexSpec::Complete) }, Step::Start { session: ctx.session(1, vec![], ops) }];
    History { property: "C16".into(), seed, label: format!("a handle in use while another open recreates the index (held at {hold_point})"), steps }
}

/// C16 with caller threads: two to four threads ask for the own words of a sample of facts on one
/// handle that nobody has used yet (whatever the handle sets up on first use happens while the other
/// callers are already asking).
pub fn c16_threads(ctx: &Ctx, rng: &mut Rng, seed: u64, sample: usize) -> History {
    let fakes = crate::dirstate::FAKE_PHRASES.len();
    let own: Vec<&String> = ctx.qprime[..ctx.qprime.len() - fakes].iter().collect();
    let t = rng.range(2, 4);
    let mut queries = Vec::new();
    let mut threads: Vec<Vec<usize>> = vec![Vec::new(); t];
    for i in 0..sample.min(own.len()) {
        let text = if sample >= own.len() { own[i].clone() } else { (*rng.pick(&own)).clone() };
        threads[rng.below(t)].push(queries.len());
        queries.push(QuerySpec { text, describe: true });
    }
    let len = rng.range(20, 300);
    let style = rng.below(3);
    let schedule: Vec<u8> = (0..len)
        .map(|i| match style {
            0 => 1 + rng.below(t) as u8,
            1 => {
                if rng.chance(1, 6) {
                    1 + rng.below(t) as u8
                } else {
                    0
                }
            }
            _ => 1 + (i % t) as u8,
        })
        .collect();
    let (mode, label) = if rng.chance(2, 3) { (Mode::Mem, "fresh in-memory") } else { (Mode::Disk, "fresh on-disk") };
    let n = queries.len();
    let ops = vec![Op::Open { slot: 0, mode, plan: Plan::default() }, Op::Threads { slot: 0, queries, threads, schedule, iso_fresh: None }];
    History { property: "C16".into(), seed, label: format!("{t} caller threads ask {n} facts' own words on a {label} handle nobody has used yet"), steps: vec![Step::Start { session: ctx.session(1, vec![], ops) }] }
}

// ---------------------------------------------------------------------------------------------
// C18

pub struct PhrasePool {
    pub own: Vec<String>,
    pub ambiguous: Vec<String>,
    pub missing: Vec<String>,
}

pub fn phrase_pool(ctx: &Ctx) -> PhrasePool {
    let fakes = crate::dirstate::FAKE_PHRASES.len();
    let own: Vec<String> = ctx.qprime[..ctx.qprime.len() - fakes].iter().filter(|p| !p.starts_with('{')).cloned().collect();
    let ambiguous: Vec<String> = ctx.q14.iter().filter(|p| p.chars().count() <= 3 && !p.starts_with('{')).cloned().collect();
    PhrasePool { own, ambiguous, missing: vec!["zzz qqq".into(), "zzzfake quux".into(), "xqzj".into()] }
}

/// Another spelling of a fact's words by letter case: one word or all of them in capitals or
/// capitalised. Half of the time a phrase is looked for that has a word beginning like one of the
/// search engine's operators ("orbit", "andorra", "nothing"), and that word is the one re-cased.
fn recased(pool: &PhrasePool, rng: &mut Rng) -> String {
    let lookalike = |w: &str| {
        let l = w.to_lowercase();
        (l.starts_with("or") && l.len() > 2) || (l.starts_with("and") && l.len() > 3) || (l.starts_with("not") && l.len() > 3)
    };
    let mut p = rng.pick(&pool.own).clone();
    if rng.chance(1, 2) {
        for _ in 0..24 {
            if p.split_whitespace().any(lookalike) {
                break;
            }
            p = rng.pick(&pool.own).clone();
        }
    }
    let words: Vec<&str> = p.split_whitespace().collect();
    let target = match words.iter().position(|w| lookalike(w)) {
        Some(i) if rng.chance(3, 4) => Some(i),
        _ if rng.chance(1, 3) => None, // all words
        _ => Some(rng.below(words.len().max(1))),
    };
    let style = rng.below(3);
    let recase = |w: &str| -> String {
        match style {
            0 | 1 => w.to_uppercase(),
            _ => {
                let mut c = w.chars();
                match c.next() {
                    Some(f) => f.to_uppercase().collect::<String>() + c.as_str(),
                    None => String::new(),
                }
            }
        }
    };
    words.iter().enumerate().map(|(i, w)| if target.is_none() || target == Some(i) { recase(w) } else { w.to_string() }).collect::<Vec<_>>().join(" ")
}

fn phrase(pool: &PhrasePool, rng: &mut Rng) -> String {
    if rng.chance(1, 10) {
        return recased(pool, rng);
    }
    if rng.chance(1, 8) {
        // an underspecified phrase: a fact's words with one of them left out ("population dominican")
        let p = rng.pick(&pool.own).clone();
        let words: Vec<&str> = p.split_whitespace().collect();
        if words.len() >= 3 && !p.starts_with('{') {
            let drop = rng.below(words.len());
            return words.iter().enumerate().filter(|(i, _)| *i != drop).map(|(_, w)| *w).collect::<Vec<_>>().join(" ");
        }
    }
    match rng.below(10) {
        0 => rng.pick(&pool.missing).clone(),
        1 | 2 => {
            if pool.ambiguous.is_empty() {
                rng.pick(&pool.own).clone()
            } else {
                rng.pick(&pool.ambiguous).clone()
            }
        }
        _ => rng.pick(&pool.own).clone(),
    }
}

fn literal(rng: &mut Rng) -> String {
    rng.pick(&["2", "0.5", "3", "1/3", "10", "1.25", "7", "100", "0.001", "12"]).to_string()
}

pub fn c18_text(pool: &PhrasePool, rng: &mut Rng) -> String {
    let p = |rng: &mut Rng| phrase(pool, rng);
    // a quantity written with repeated division ("9.81 m/s/s") cast to the derived unit it is meant
    // to be: how such a chain is read is a decision of the evaluator (the code has an unfinished
    // "acceleration bias"), taken - and possibly retaken - in the middle of evaluating a query
    let chain_cast = |rng: &mut Rng| -> String {
        let chain = *rng.pick(&["m/s/s", "km/h/s", "kg*m/s/s", "m/s/s/s", "N*m/s", "kg/m/s/s", "ft/s/s", "m/s / s", "km/s/s", "J/s/s"]);
        let target = *rng.pick(&["m/s^2", "m/s^2", "N", "W", "Pa", "m/s^3", "km/h^2", "ft/s^2", "km/s^2"]);
        format!("{} {chain} to {target}", literal(rng))
    };
    match rng.below(31) {
        // a number directly in front of a fact's words (what a reader takes for a multiplication),
        // alone, in a function call, under a power, before a cast, before a division
        28 | 29 => match rng.below(6) {
            0 => format!("{} {}", literal(rng), p(rng)),
            1 => format!("round({} {})", literal(rng), p(rng)),
            2 => format!("({} {}) ^ 2", literal(rng), p(rng)),
            3 => format!("{} {} to g", literal(rng), p(rng)),
            4 => format!("{} {} / {}", literal(rng), p(rng), p(rng)),
            _ => format!("{} + {} {}", p(rng), literal(rng), p(rng)),
        },
        // a fact's words directly in front of a unit, a percent sign, or as a function argument among others
        30 => match rng.below(4) {
            0 => format!("{} km", p(rng)),
            1 => format!("{}%", p(rng)),
            2 => format!("round({}, {})", p(rng), literal(rng)),
            // (never a fact as an exponent: `2 ^ population uganda` is a number of fourteen million digits)
            _ => format!("{} ^ 2", p(rng)),
        },
        24 => format!("({}) * {}", chain_cast(rng), p(rng)),
        25 => format!("{} * {}", p(rng), chain_cast(rng)),
        26 => format!("({}) ({}) ({})", p(rng), chain_cast(rng), p(rng)),
        27 => match rng.below(3) {
            0 => format!("({}) * {} to N", chain_cast(rng), p(rng)),
            1 => format!("{} / ({})", p(rng), chain_cast(rng)),
            _ => format!("({}) + {} + ({})", chain_cast(rng), p(rng), chain_cast(rng)),
        },
        0 | 1 => p(rng),
        2 => format!("{} * {}", p(rng), literal(rng)),
        3 => format!("{} * {}", literal(rng), p(rng)),
        4 => format!("{} / {}", p(rng), p(rng)),
        5 => format!("{{{}}} * {{{}}}", p(rng), p(rng)),
        6 => {
            let x = p(rng);
            format!("{x} + {x}")
        }
        7 => format!("round({})", p(rng)),
        8 => format!("({}) ({}) {}", p(rng), p(rng), literal(rng)),
        9 => format!("({}) (1m + 1s) ({})", p(rng), p(rng)),
        10 => format!("{} - {} / {}", p(rng), p(rng), literal(rng)),
        11 => format!("{{{}}}", p(rng)),
        12 => rng.pick(&["1 + 2", "3N / 10kg", "3dl to m^3", "1m + 1s", "12 km / 4 s", "2^10", "10%"]).to_string(),
        13 => format!("({}) / ({})", p(rng), p(rng)),
        14 => format!("{} to km", p(rng)),
        15 => format!("({}) {} ({}) zzz qqq ({})", p(rng), literal(rng), p(rng), p(rng)),
        16 => format!("({})({})", p(rng), p(rng)),
        17 => format!("({} + {})({})({})", p(rng), literal(rng), p(rng), literal(rng)),
        18 => format!("({})(1m + 1s)({})", p(rng), p(rng)),
        19 => format!("({} / 0)({} * {})", p(rng), p(rng), literal(rng)),
        20 => format!("{} + {}", p(rng), p(rng)),
        22 | 23 => {
            // a flat chain of 3..=6 phrases
            let n = rng.range(3, 6);
            let mut t = p(rng);
            for _ in 1..n {
                let op = *rng.pick(&["+", "-", "*", "/"]);
                t = format!("{t} {op} {}", p(rng));
            }
            t
        }
        _ => format!("({}) ({})", p(rng), p(rng)),
    }
}

pub fn c18_random(ctx: &Ctx, pool: &PhrasePool, rng: &mut Rng, seed: u64) -> History {
    c18_random_under(ctx, pool, rng, seed, None)
}

/// `forced`: the database is opened on disk, over a directory that needs rebuilding, while an I/O
/// error is injected at that hit of that hook point (enumerated over all points by the caller).
pub fn c18_random_under(ctx: &Ctx, pool: &PhrasePool, rng: &mut Rng, seed: u64, forced: Option<(String, usize)>) -> History {
    // swarm: small scripts over the whole phrase pool, or large scripts over a small per-script
    // pool (so that phrases looked up early come back after many other lookups)
    let large = rng.chance(1, 3);
    let n_texts = if large { rng.range(6, 10) } else { rng.range(2, 5) };
    let local;
    let pool = if large || rng.chance(1, 4) {
        let k = rng.range(4, 14);
        local = PhrasePool {
            own: (0..k).map(|_| rng.pick(&pool.own).clone()).collect(),
            ambiguous: (0..3).map(|_| if pool.ambiguous.is_empty() { rng.pick(&pool.own).clone() } else { rng.pick(&pool.ambiguous).clone() }).collect(),
            missing: pool.missing.clone(),
        };
        &local
    } else {
        pool
    };
    let mut queries: Vec<QuerySpec> = Vec::new();
    for _ in 0..n_texts {
        let text = c18_text(pool, rng);
        let describe = rng.chance(1, 2);
        queries.push(QuerySpec { text: text.clone(), describe });
        // the twin with the opposite flag, at another position
        let pos = rng.below(queries.len() + 1);
        queries.insert(pos, QuerySpec { text, describe: !describe });
    }
    if rng.chance(1, 3) {
        // the same text twice with the same flag
        let q = rng.pick(&queries).clone();
        queries.push(q);
    }
    let n = queries.len();
    // interleaving
    let mut acts = Vec::new();
    let mut unopened: Vec<usize> = (0..n).collect();
    rng.shuffle(&mut unopened);
    let mut open: Vec<usize> = Vec::new();
    let mut budget: Vec<usize> = (0..n).map(|_| rng.range(1, 9)).collect();
    let sequential = rng.chance(1, 8);
    while !unopened.is_empty() || !open.is_empty() {
        let can_open = !unopened.is_empty();
        let do_open = can_open && (open.is_empty() || (!sequential && rng.chance(2, 5)));
        if do_open {
            let i = unopened.pop().unwrap();
            acts.push(Act::Open(i));
            open.push(i);
        } else {
            let oi = if sequential { 0 } else { rng.below(open.len()) };
            let i = open[oi];
            if budget[i] == 0 {
                acts.push(Act::Close(i));
                open.remove(oi);
            } else {
                budget[i] -= 1;
                acts.push(Act::Step(i));
            }
        }
    }
    let (mode, label) = if rng.chance(3, 4) || forced.is_some() { (Mode::Disk, "disk") } else { (Mode::Mem, "mem") };
    let mut steps = Vec::new();
    if mode == Mode::Disk {
        steps.push(Step::Fabricate { state: state(true, MetaSpec::Current, IndexSpec::Complete) });
    }
    let ops = vec![Op::Open { slot: 0, mode, plan: Plan::default() }, Op::Interleave { slot: 0, queries, acts, iso_slot: 1, iso_fresh: Some(mode) }];
    // Sometimes the database under test is opened while one I/O error is injected. If the open fails
    // there is nothing to ask; if the code carries on regardless, the handle it returns must behave
    // like any other (the isolation handles are opened afterwards, without a fault).
    let mut faults = Vec::new();
    let mut label = label.to_string();
    if let Some((point, k)) = forced {
        steps.clear();
        steps.push(Step::Fabricate { state: state(true, MetaSpec::OtherHash, IndexSpec::Foreign) });
        faults.push(Fault::Fail { point: point.clone(), k, interrupted: false });
        label = format!("{label} opened under fail@{point}#{k}");
    } else if rng.chance(1, 6) {
        if mode == Mode::Disk && rng.chance(1, 2) {
            // a directory that needs a rebuild, so that the rebuild points are reached
            steps.clear();
            steps.push(Step::Fabricate { state: state(true, MetaSpec::OtherHash, IndexSpec::Foreign) });
        }
        let pts: Vec<(&'static str, usize)> = all_points(ctx).into_iter().filter(|(p, _)| mode == Mode::Disk || p.starts_with("rebuild.") || p.starts_with("open.")).collect();
        let (point, count) = *rng.pick(&pts);
        let k = if count <= 1 { 0 } else { *rng.pick(&[0, count / 2, count - 1]) };
        faults.push(Fault::Fail { point: point.to_string(), k, interrupted: false });
        label = format!("{label} opened under fail@{point}#{k}");
    }
    steps.push(Step::Start { session: ctx.session(1, faults, ops) });
    History { property: "C18".into(), seed, label: format!("{n} queries on one {label} database"), steps }
}

/// Spellings that a careless normalisation (case folding, blank collapsing, word sorting) would
/// merge with `base` although the search treats some of them differently (upper-case OR / AND /
/// NOT are operators of the underlying query parser, lower-case ones are words).
pub fn confusables(base: &str, rng: &mut Rng) -> Vec<String> {
    let words: Vec<&str> = base.split_whitespace().collect();
    let mut out = vec![base.to_string(), base.to_uppercase(), base.to_lowercase()];
    let title: Vec<String> = words
        .iter()
        .map(|w| {
            let mut c = w.chars();
            match c.next() {
                Some(f) => f.to_uppercase().collect::<String>() + c.as_str(),
                None => String::new(),
            }
        })
        .collect();
    out.push(title.join(" "));
    if words.len() >= 2 {
        let mut rev = words.clone();
        rev.reverse();
        out.push(rev.join(" "));
        let cut = rng.range(1, words.len() - 1);
        let (a, b) = (words[..cut].join(" "), words[cut..].join(" "));
        for op in ["OR", "or", "AND", "and", "NOT", "not", "Or", "And", "Not"] {
            out.push(format!("{a} {op} {b}"));
        }
        // a proper sub-phrase and a super-phrase
        out.push(a.clone());
        out.push(b.clone());
        out.push(format!("{base} {}", words[0]));
        // spellings the search engine's own query parser rejects (a dangling operator): an
        // evaluation error like any other, which may not change what later lookups return
        for t in [format!("{a} OR"), format!("NOT {b}"), format!("{a} NOT"), format!("AND {b}"), format!("{a} AND")] {
            out.push(t);
        }
    }
    out.sort();
    out.dedup();
    out
}

/// C18: one database handle that sees many distinct phrases between two evaluations of the same
/// texts (anything that remembers earlier lookups has a capacity; `n` sweeps well past small ones).
pub fn c18_recurrence(ctx: &Ctx, pool: &PhrasePool, rng: &mut Rng, seed: u64, quick: bool) -> History {
    let sizes: &[usize] = if quick { &[6, 12, 20, 36, 70, 140] } else { &[6, 12, 20, 36, 70, 140, 280, 560] };
    let n = *rng.pick(sizes);
    let probes: Vec<String> = (0..rng.range(2, 5)).map(|_| rng.pick(&pool.own).clone()).collect();
    let probe_pool = PhrasePool { own: probes.clone(), ambiguous: probes.clone(), missing: pool.missing.clone() };
    let mut fillers: Vec<String> = Vec::new();
    let mut guard = 0;
    while fillers.len() < n && guard < n * 20 {
        guard += 1;
        let f = rng.pick(&pool.own).clone();
        if !fillers.contains(&f) && !probes.contains(&f) {
            fillers.push(f);
        }
    }
    let mut queries: Vec<QuerySpec> = Vec::new();
    let probe_round = |queries: &mut Vec<QuerySpec>, rng: &mut Rng| {
        for p in &probes {
            queries.push(QuerySpec { text: p.clone(), describe: rng.chance(1, 2) });
        }
        for _ in 0..2 {
            queries.push(QuerySpec { text: c18_text(&probe_pool, rng), describe: rng.chance(1, 2) });
        }
    };
    probe_round(&mut queries, rng);
    let rounds = rng.range(1, 3);
    let mut at = 0;
    for r in 0..rounds {
        let left = fillers.len() - at;
        let take = if r + 1 == rounds || left == 0 { left } else { rng.range(1, left) };
        for f in &fillers[at..at + take] {
            queries.push(QuerySpec { text: f.clone(), describe: rng.chance(1, 2) });
        }
        at += take;
        probe_round(&mut queries, rng);
    }
    // strictly one after the other: open, step to the end, close
    let mut acts = Vec::new();
    for i in 0..queries.len() {
        acts.push(Act::Open(i));
        for _ in 0..4 {
            acts.push(Act::Step(i));
        }
        acts.push(Act::Close(i));
    }
    let nq = queries.len();
    let steps = vec![
        Step::Fabricate { state: state(true, MetaSpec::Current, IndexSpec::Complete) },
        Step::Start { session: ctx.session(1, vec![], vec![Op::Open { slot: 0, mode: Mode::Disk, plan: Plan::default() }, Op::Interleave { slot: 0, queries, acts, iso_slot: 1, iso_fresh: Some(Mode::Disk) }]) },
    ];
    History { property: "C18".into(), seed, label: format!("{nq} queries one after the other on one disk database, {n} distinct phrases between repetitions"), steps }
}

/// C18 over families of confusable spellings of one to three facts.
pub fn c18_confusable(ctx: &Ctx, pool: &PhrasePool, rng: &mut Rng, seed: u64) -> History {
    let mut own = Vec::new();
    for _ in 0..rng.range(1, 3) {
        let base = loop {
            let b = rng.pick(&pool.own).clone();
            if b.split_whitespace().count() >= 2 || rng.chance(1, 8) {
                break b;
            }
        };
        own.extend(confusables(&base, rng));
    }
    // every other script works on a handful of spellings only, among them always one operator word in
    // both cases (a NOT b / a not b), so that spellings which collide under a normalisation meet often
    if rng.chance(1, 2) && own.len() > 6 {
        let mut small: Vec<String> = Vec::new();
        let op = *rng.pick(&[" NOT ", " OR ", " AND "]);
        if let Some(up) = own.iter().find(|t| t.contains(op)).cloned() {
            let low = up.replace(op, &op.to_lowercase());
            small.push(up);
            small.push(low);
        }
        while small.len() < 5 {
            let t = rng.pick(&own).clone();
            if !small.contains(&t) {
                small.push(t);
            }
        }
        own = small;
    }
    let local = PhrasePool { own: own.clone(), ambiguous: own, missing: pool.missing.clone() };
    let mut h = c18_random(ctx, &local, rng, seed);
    h.label = format!("{} (confusable spellings)", h.label);
    h
}

/// C18 with real caller threads on one database: who runs at every scheduling point (before each
/// step, in the middle and at the end of every lookup) is drawn here.
pub fn c18_threads(ctx: &Ctx, pool: &PhrasePool, rng: &mut Rng, seed: u64) -> History {
    let t = rng.range(2, 4);
    // a small pool, so that the threads look the same phrases up at the same time
    let k = rng.range(2, 8);
    let local = PhrasePool {
        own: (0..k).map(|_| rng.pick(&pool.own).clone()).collect(),
        ambiguous: (0..2).map(|_| if pool.ambiguous.is_empty() { rng.pick(&pool.own).clone() } else { rng.pick(&pool.ambiguous).clone() }).collect(),
        missing: pool.missing.clone(),
    };
    let mut queries: Vec<QuerySpec> = Vec::new();
    let mut threads: Vec<Vec<usize>> = vec![Vec::new(); t];
    let per = rng.range(1, 3);
    for ti in 0..t {
        for _ in 0..per {
            let text = c18_text(&local, rng);
            let describe = rng.chance(1, 2);
            threads[ti].push(queries.len());
            queries.push(QuerySpec { text: text.clone(), describe });
            // the twin with the opposite flag runs on another thread
            let other = (ti + 1 + rng.below(t - 1)) % t;
            threads[other].push(queries.len());
            queries.push(QuerySpec { text, describe: !describe });
        }
    }
    for th in threads.iter_mut() {
        rng.shuffle(th);
    }
    // schedule: uniform, sticky (long runs of one thread with rare switches) or strictly alternating
    let len = rng.range(40, 600);
    let style = rng.below(4);
    let stick = rng.range(2, 12);
    let schedule: Vec<u8> = (0..len)
        .map(|i| match style {
            0 => 1 + rng.below(t) as u8,
            1 => {
                if rng.chance(1, stick) {
                    1 + rng.below(t) as u8
                } else {
                    0
                }
            }
            2 => 1 + (i % t) as u8,
            _ => {
                if rng.chance(1, 2) {
                    0
                } else {
                    1 + rng.below(t) as u8
                }
            }
        })
        .collect();
    let (mode, label) = if rng.chance(1, 2) { (Mode::Disk, "disk") } else { (Mode::Mem, "mem") };
    let mut steps = Vec::new();
    if mode == Mode::Disk {
        steps.push(Step::Fabricate { state: state(true, MetaSpec::Current, IndexSpec::Complete) });
    }
    let n = queries.len();
    let ops = vec![Op::Open { slot: 0, mode, plan: Plan::default() }, Op::Threads { slot: 0, queries, threads, schedule, iso_fresh: Some(mode) }];
    steps.push(Step::Start { session: ctx.session(1, vec![], ops) });
    History { property: "C18".into(), seed, label: format!("{t} caller threads, {n} queries on one {label} database"), steps }
}

// ---------------------------------------------------------------------------------------------
// C19

fn num_pow(b: usize, n: usize) -> u128 {
    (0..n).fold(1u128, |acc, _| acc * b as u128)
}

pub fn c19_query(pool: &PhrasePool, rng: &mut Rng) -> String {
    let int = |rng: &mut Rng| -> String {
        match rng.below(5) {
            0 => rng.range(0, 9).to_string(),
            1 => rng.range(10, 99999).to_string(),
            2 => format!("{}{}", rng.range(1, 9), "0".repeat(rng.range(3, 30))),
            3 => format!("{}", rng.next_u64()),
            _ => format!("{}", rng.range(1, 12)),
        }
    };
    let dec = |rng: &mut Rng| -> String {
        match rng.below(7) {
            // very small values and long fractions (denominators of 20..60 digits)
            // (half of them with a digit count next to where 64- and 128-bit integers end: 10^19, 10^38)
            4 => format!("{}e-{}", rng.range(1, 99), if rng.chance(1, 2) { *rng.pick(&[17usize, 18, 19, 20, 36, 37, 38, 39, 40]) } else { rng.range(1, 60) }),
            5 => {
                let len = if rng.chance(1, 2) { *rng.pick(&[18usize, 19, 20, 37, 38, 39, 40]) } else { rng.range(20, 60) };
                format!("0.{}", (0..len).map(|_| char::from(b'0' + rng.below(10) as u8)).collect::<String>())
            }
            6 => format!("{}.{} + {}e-{}", rng.range(0, 999999999), rng.range(0, 9), rng.range(1, 9), if rng.chance(1, 2) { *rng.pick(&[19usize, 20, 37, 38, 39]) } else { rng.range(20, 50) }),
            0 => format!("{}.{}", rng.range(0, 999), rng.range(0, 999999)),
            1 => format!("0.{}{}", "0".repeat(rng.range(0, 20)), rng.range(1, 999)),
            2 => format!("{}.5", rng.range(0, 50)),
            _ => format!("{}e{}", rng.range(1, 99), rng.range(0, 40)),
        }
    };
    let unit = |rng: &mut Rng| -> &'static str { *rng.pick(&["m", "km", "s", "kg", "N", "J", "W", "ft", "mi", "l", "h", "min", "btu", "Pa", "g", "m/s", "m^2", "km/h", "kg*m", "m/s^2", "celsius", "fahrenheit", "K", "°C", "°F", "Ω", "μm", "%"]) };
    let plural_unit = |rng: &mut Rng| -> &'static str { *rng.pick(&["ton", "acre", "btu", "decade", "century", "millenium", "cable", "link", "perch", "rood"]) };
    let small = |rng: &mut Rng| -> String {
        match rng.below(9) {
            0 => rng.range(0, 99).to_string(),
            1 => format!("{} + {}", rng.range(0, 99), rng.range(0, 99)),
            2 => "1m + 1s".to_string(),
            3 => format!("{} / 0", rng.range(1, 9)),
            4 => format!("{}{}", rng.range(1, 99), *rng.pick(&["m", "km", "s", "kg", "ton", "acre"])),
            5 => {
                if rng.chance(1, 4) {
                    // phrases the search engine's own query parser rejects: an evaluation error like any other
                    rng.pick(&["NOT", "pi OR", "speed of light OR", "AND mass", "mass AND", "OR", "NOT pi", "NOT earth AND NOT moon", "NOT mass", "pi AND NOT pi", "earth OR OR moon"]).to_string()
                } else {
                    phrase(pool, rng)
                }
            }
            6 => format!("{}m + {}km", rng.range(1, 9), rng.range(1, 9)),
            7 => format!("{} * {}", rng.range(1, 99), rng.range(1, 99)),
            _ => format!("1 / {}", rng.range(2, 13)),
        }
    };
    if rng.chance(1, 12) {
        // decimals whose reduced denominator has as many digits as fit a 64- or 128-bit integer, or
        // one more or less (10^19, 10^38): with and without a unit, as a literal or reached by division
        let k = *rng.pick(&[18usize, 19, 20, 37, 38, 38, 39, 40]);
        let u = if rng.chance(1, 3) { format!(" {}", unit(rng)) } else { String::new() };
        return match rng.below(5) {
            0 => format!("{}e-{k}{u}", rng.range(1, 99)),
            1 => format!("0.{}{u}", (0..k).map(|i| char::from(b'0' + if i + 1 == k { 1 + 2 * rng.below(5) as u8 } else { rng.below(10) as u8 })).collect::<String>()),
            2 => format!("{}{u} / {}e{}", rng.range(1, 9), rng.range(1, 9), k - 1),
            3 => format!("{}.{}e-{}{u}", rng.range(1, 9), rng.range(1, 9), k - 1),
            _ => format!("1 / {}{}", rng.range(1, 9), (0..k - 1).map(|_| char::from(b'0' + rng.below(10) as u8)).collect::<String>()),
        };
    }
    match rng.below(40) {
        37 | 38 | 39 => {
            // signed values: negative results, negative bases and exponents, results that are
            // exactly one, minus one or zero only after the arithmetic, with and without units
            let u = if rng.chance(1, 2) { String::new() } else { format!(" {}", *rng.pick(&["m", "decade", "ton", "s", "acre", "btu", "kg"])) };
            let a = rng.range(1, 12);
            let b = rng.range(2, 13);
            let n = rng.range(1, 7);
            match rng.below(14) {
                0 => format!("-{a}{u}"),
                1 => format!("-{a} / {b}{u}"),
                2 => format!("-{a}^-{n}"),
                3 => format!("{a}^-{n}"),
                4 => format!("-{a}^-{n} to m"),
                5 => format!("(0 - {a})^{n}{u}"),
                6 => format!("{a}{u} - {}{u}", a + 1),
                7 => format!("{a}{u} - {a}{u}"),
                8 => format!("-{a}^{n}{u}"),
                9 => format!("{}^-{n} * {}{u}", b, num_pow(b, n)),
                10 => format!("0 - {}^-{n} * {}{u}", b, num_pow(b, n)),
                11 => format!("-{a}/{b}{u} * {b}/{a}"),
                12 => format!("{a} / -{b}{u}"),
                _ => format!("-{}.{}{u}", rng.range(0, 99), rng.range(0, 999)),
            }
        }
        20 | 21 => format!("{} {}", *rng.pick(&["1", "0.5", "0.25", "0.125", "0.2", "2", "1.0", "10", "0.1", "1.5", "0.01", "3"]), plural_unit(rng)),
        22 => format!("{} {} to {}", *rng.pick(&["1", "10", "100", "5", "0.5"]), plural_unit(rng), plural_unit(rng)),
        23 => format!("({})({})", small(rng), small(rng)),
        24 => format!("({})({})({})", small(rng), small(rng), small(rng)),
        25 => format!("({}) ({})", small(rng), small(rng)),
        26 => {
            // many results in one invocation (values and errors mixed). Groups without inner
            // blanks, directly juxtaposed, are what this grammar turns into one result per group
            // plus located errors for the parentheses in between.
            let n = *rng.pick(&[5usize, 8, 13, 21, 34, 55]);
            let tight = |rng: &mut Rng| -> String {
                match rng.below(10) {
                    0 => rng.range(0, 99).to_string(),
                    1 => format!("{}+{}", rng.range(0, 99), rng.range(0, 99)),
                    2 => "1m+1s".to_string(),
                    3 => format!("{}/0", rng.range(1, 9)),
                    4 => format!("{}{}", rng.range(1, 99), *rng.pick(&["m", "km", "s", "kg", "ton", "acre", "decade"])),
                    5 => format!("1/{}", rng.range(2, 13)),
                    6 => format!("{}foo", rng.range(1, 9)),
                    7 => format!("2^{}", rng.range(30, 80)),
                    8 => format!("{}/{}decades", rng.range(1, 20), rng.range(2, 9)),
                    9 if rng.chance(1, 2) => rng.pick(&["NOT", "OR", "AND", "pi", "c", "NOT pi", "NOT c"]).to_string(),
                    _ => format!("{}*{}", rng.range(1, 99), rng.range(1, 99)),
                }
            };
            (0..n).map(|_| format!("({})", tight(rng))).collect::<Vec<_>>().join("")
        }
        27 | 28 => {
            // results whose unit has several parts on both sides of the '/'
            let base = |rng: &mut Rng| -> &'static str { *rng.pick(&["kg", "m", "s", "A", "K", "mol", "cd", "N", "J", "W", "Pa", "hr", "km", "g", "ms", "decade", "ton", "btu", "l"]) };
            let n = rng.range(2, 5);
            let mut t = format!("{}{}", rng.range(1, 9), base(rng));
            for _ in 1..n {
                let op = if rng.chance(1, 2) { "*" } else { "/" };
                t = format!("{t} {op} {}{}", rng.range(1, 9), base(rng));
            }
            t
        }
        34 | 35 => {
            // evaluation errors with long messages that echo non-ASCII text (compound units with ⋅ and
            // ², the degree sign), 60..170 bytes long, between other results; blank-free, so that the
            // grammar keeps the parts apart
            if rng.chance(1, 2) {
                // "illegal operation: <long unit> + <long unit>"
                let mut left = vec!["kg", "cd", "m", "s", "A", "K", "mol", "B"];
                let mut right = vec!["km^2", "kcd^2", "ms^3", "mA^2", "mK^2", "mmol^2", "MB^2", "μs^2"];
                rng.shuffle(&mut left);
                rng.shuffle(&mut right);
                let a = left[..rng.range(2, 8)].join("*");
                let b = right[..rng.range(2, 7)].join("*");
                if rng.chance(1, 2) {
                    format!("{}%1{a}+(1{b}){}%", rng.range(1, 9), rng.range(1, 9))
                } else {
                    format!("({}m)(1{a}+1{b})({}m)", rng.range(1, 9), rng.range(1, 9))
                }
            } else {
                // "unit `<name>` is not a valid unit" with a degree sign somewhere around byte 100
                let len = rng.range(50, 140);
                let mut name = String::from("xq");
                while name.len() < len {
                    name.push(*rng.pick(&['x', 'q', 'z', 'w', '°', 'a', 'j', '°']));
                }
                format!("(3{name})({}m)", rng.range(1, 9))
            }
        }
        36 => {
            // units raised to large powers (two and three digit exponents, also reached by arithmetic)
            // ... and exponents around every power of ten up to the end of 32 bits (digit counts)
            let e = if rng.chance(1, 2) {
                *rng.pick(&[9usize, 10, 11, 19, 20, 21, 60, 99, 100, 101, 120, 999, 1000, 1024])
            } else {
                let k = rng.range(3, 9) as u32;
                let p = 10usize.pow(k);
                match rng.below(6) {
                    0 => p,
                    1 => p + 1,
                    2 => p - 1,
                    3 => p - 1 - rng.below(8),
                    4 => p - 1 - rng.below(p / 1000 + 1),
                    _ => *rng.pick(&[2147483647usize, 2147483646, 1073741824, 4294967, 16777216, 16777217]),
                }
            };
            // (a prefixed or derived unit raised to such a power is a number of millions of digits, which
            // the tool takes minutes to hours to print: not a question this check asks)
            let u = if e > 1100 { *rng.pick(&["m", "s", "V", "A"]) } else { *rng.pick(&["m", "s", "kg", "km", "V", "decade"]) };
            match rng.below(4) {
                0 => format!("{} {u}^{e}", rng.range(1, 9)),
                1 => format!("{} {u}^-{e}", rng.range(1, 9)),
                2 if e < 1_000_000_000 => format!("{} {u}^{} * {} {u}^{}", rng.range(1, 9), e / 2, rng.range(1, 9), e - e / 2),
                // (never a number divided by such a power: `3 / m^9999999` takes the tool minutes)
                2 => format!("{} {u}^-{e}", rng.range(1, 9)),
                _ => format!("{}.5 {u}^{e} / 2 s^{}", rng.range(1, 9), rng.range(2, 130)),
            }
        }
        31 => format!("{}%({}){}%", rng.range(1, 99), small(rng), rng.range(1, 99)),
        32 => format!("round({}){}%{}%", small(rng), rng.range(1, 99), rng.range(1, 99)),
        33 => format!("{} {} to {}", rng.range(0, 170) as i64 - 50, *rng.pick(&["celsius", "fahrenheit", "K"]), *rng.pick(&["celsius", "fahrenheit", "K"])),
        0 => int(rng),
        1 | 29 | 30 => dec(rng),
        2 => format!("{} / {}", int(rng), rng.range(1, 999)),
        3 => format!("1 / {}", *rng.pick(&[3usize, 7, 9, 11, 13, 17, 6, 12, 81, 998001])),
        4 => format!("{}{}", int(rng), unit(rng)),
        5 => format!("1 {}", unit(rng)),
        6 => format!("{} / {}{}", int(rng), rng.range(1, 99), unit(rng)),
        7 => format!("1 / 1{}", unit(rng)),
        8 => format!("{}{} to {}", dec(rng), unit(rng), unit(rng)),
        9 => format!("{}{} + {}{}", int(rng), unit(rng), int(rng), unit(rng)),
        10 => phrase(pool, rng),
        11 => format!("{} / {}", phrase(pool, rng), phrase(pool, rng)),
        12 => format!("({}) ({}{}) ({})", int(rng), int(rng), unit(rng), dec(rng)),
        13 => format!("(1m + 1s) (2km) ({})", phrase(pool, rng)),
        14 => format!("{}{} * {}{}", dec(rng), unit(rng), int(rng), unit(rng)),
        15 => format!("{} - {}", int(rng), int(rng)),
        16 => format!("{}{} / {}{}", int(rng), unit(rng), int(rng), unit(rng)),
        17 => format!("{} ^ {}", rng.range(2, 12), rng.range(0, 80)),
        18 => format!("2{} / 2{}", unit(rng), unit(rng)),
        _ => format!("round({} / {})", int(rng), rng.range(1, 97)),
    }
}

/// One invocation of the program with one result per given order of magnitude: `(1e{k})` groups,
/// blank-free; every eighth with another mantissa, a sign or a unit.
pub fn c19_magnitudes(ctx: &Ctx, ks: &[usize], seed: u64) -> History {
    let mut rng = Rng::new(seed);
    let q: String = ks
        .iter()
        .map(|k| {
            if rng.chance(7, 8) {
                format!("(1e{k})")
            } else {
                match rng.below(5) {
                    0 => format!("(1.000005e{k})"),
                    1 => format!("(9.99e{k})"),
                    2 => format!("(0-1e{k})"),
                    3 => format!("(1e{k}m)"),
                    _ => format!("(12.5e{k}*0.08)"),
                }
            }
        })
        .collect();
    let steps = vec![
        Step::Fabricate { state: state(true, MetaSpec::Current, IndexSpec::Complete) },
        Step::Cli { query: q.clone(), exact: false, describe: false, env: vec![], split: false, inject: None, tty: false },
        Step::Start { session: ctx.session(1, vec![], vec![Op::Open { slot: 0, mode: Mode::Disk, plan: Plan::default() }, Op::Ask { slot: 0, phrases: vec![q], file: None, subset: None, detail: true }]) },
    ];
    History { property: "C19".into(), seed, label: format!("any with one result per order of magnitude: {} values between 1e{} and 1e{}", ks.len(), ks.iter().min().copied().unwrap_or(0), ks.iter().max().copied().unwrap_or(0)), steps }
}

pub fn c19_random(ctx: &Ctx, pool: &PhrasePool, rng: &mut Rng, seed: u64) -> History {
    let states = c15_states(ctx, true);
    let (tag, st) = rng.pick(&states).clone();
    let mut steps = vec![Step::Fabricate { state: st }];
    let mut label = format!("any over {tag}");
    if rng.chance(1, 3) {
        let faults = random_fault(ctx, rng);
        label.push_str(&format!(" after {}", faults.iter().map(fault_label).collect::<Vec<_>>().join("+")));
        steps.push(Step::Start { session: ctx.session(1, faults, vec![Op::Open { slot: 0, mode: Mode::Disk, plan: Plan::default() }]) });
    }
    let n = rng.range(2, 4);
    let mut queries = Vec::new();
    for _ in 0..n {
        let mut q = c19_query(pool, rng);
        if rng.chance(1, 6) {
            // blanks at the front, at the end or doubled inside: passed as separate words these are
            // empty command-line arguments (`any "" 1m`), which the program joins like any other
            match rng.below(4) {
                0 => q = format!(" {q}"),
                1 => q = format!("  {q}"),
                2 => q = format!("{q} "),
                _ => {
                    if let Some(at) = q.find(' ') {
                        q.insert(at, ' ');
                    } else {
                        q = format!(" {q} ");
                    }
                }
            }
        }
        queries.push((q, rng.chance(1, 2), rng.chance(1, 4)));
    }
    // the first call performs whatever recovery the directory needs
    let (q0, e0, _) = queries[0].clone();
    steps.push(Step::Cli { query: q0, exact: e0, describe: false, env: vec![], split: rng.chance(1, 3), inject: None, tty: false });
    for (q, exact, describe) in &queries {
        // sometimes one of the program's writes is interrupted (EINTR): that is not an error, the
        // output must be what it is otherwise (the directory is complete by now, so the writes are
        // those that print the results)
        let inject = if ctx.caps_strace && rng.chance(1, 3) { Some(("write".to_string(), rng.range(1, 12), "EINTR".to_string())) } else { None };
        // what is printed for a query does not depend on the terminal type, colour preferences, log
        // level or locale of the environment (colour escapes are stripped before comparison; log lines
        // go to stderr, which is not judged)
        let mut env: Vec<(String, String)> = Vec::new();
        if rng.chance(1, 3) {
            for (k, vals) in [("TERM", &["xterm-256color", "vt100", "<unset>"][..]), ("NO_COLOR", &["<unset>", ""][..]), ("RUST_LOG", &["info", "warn", "anything=trace"][..]), ("LANG", &["de_DE.UTF-8", "C", "tr_TR.UTF-8"][..]), ("LC_ALL", &["de_DE.UTF-8", "C"][..]), ("COLUMNS", &["20", "400"][..])] {
                if rng.chance(1, 2) {
                    env.push((k.to_string(), rng.pick(vals).to_string()));
                }
            }
        }
        // a quarter of the runs write to a pseudo terminal, as when a person types the command
        let tty = inject.is_none() && rng.chance(1, 4);
        if tty && rng.chance(3, 4) {
            // ... in an ordinary interactive environment: a colour terminal, no NO_COLOR
            env.retain(|(k, _)| k != "TERM" && k != "NO_COLOR");
            env.push(("TERM".into(), rng.pick(&["xterm-256color", "screen", "linux"]).to_string()));
            env.push(("NO_COLOR".into(), "<unset>".into()));
        }
        let odd_blanks = q.starts_with(' ') || q.ends_with(' ') || q.contains("  ");
        steps.push(Step::Cli { query: q.clone(), exact: *exact, describe: *describe, env, split: if odd_blanks { rng.chance(2, 3) } else { rng.chance(1, 3) }, inject, tty });
    }
    let texts: Vec<String> = queries.iter().map(|q| q.0.clone()).collect();
    steps.push(Step::Start {
        session: ctx.session(
            1,
            vec![],
            vec![Op::Open { slot: 0, mode: Mode::Disk, plan: Plan::default() }, Op::Ask { slot: 0, phrases: texts, file: None, subset: None, detail: true }],
        ),
    });
    History { property: "C19".into(), seed, label, steps }
}

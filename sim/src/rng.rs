//! The one source of randomness: splitmix64 for seed derivation, xoshiro256** for streams.
//! Nothing here reads a clock or the OS.

pub fn splitmix64(state: &mut u64) -> u64 {
    *state = state.wrapping_add(0x9E37_79B9_7F4A_7C15);
    let mut z = *state;
    z = (z ^ (z >> 30)).wrapping_mul(0xBF58_476D_1CE4_E5B9);
    z = (z ^ (z >> 27)).wrapping_mul(0x94D0_49BB_1331_11EB);
    z ^ (z >> 31)
}

/// FNV-1a, used for stable hashes of strings / byte sequences in logs and evidence.
pub fn fnv1a(bytes: &[u8]) -> u64 {
    let mut h = 0xcbf2_9ce4_8422_2325u64;
    for b in bytes {
        h ^= *b as u64;
        h = h.wrapping_mul(0x0000_0100_0000_01b3);
    }
    h
}

/// Derive a run seed from the global seed, a tag (property / purpose) and a run index.
pub fn derive(seed: u64, tag: &str, index: u64) -> u64 {
    let mut s = seed ^ fnv1a(tag.as_bytes()).rotate_left(17) ^ index.wrapping_mul(0xD6E8_FEB8_6659_FD93);
    let a = splitmix64(&mut s);
    let b = splitmix64(&mut s);
    a ^ b.rotate_left(32)
}

#[derive(Clone, Debug)]
pub struct Rng {
    s: [u64; 4],
}

impl Rng {
    pub fn new(seed: u64) -> Self {
        let mut sm = seed;
        let s = [splitmix64(&mut sm), splitmix64(&mut sm), splitmix64(&mut sm), splitmix64(&mut sm)];
        Rng { s }
    }

    pub fn next_u64(&mut self) -> u64 {
        let result = self.s[1].wrapping_mul(5).rotate_left(7).wrapping_mul(9);
        let t = self.s[1] << 17;
        self.s[2] ^= self.s[0];
        self.s[3] ^= self.s[1];
        self.s[1] ^= self.s[2];
        self.s[0] ^= self.s[3];
        self.s[2] ^= t;
        self.s[3] = self.s[3].rotate_left(45);
        result
    }

    /// Uniform in 0..n (n > 0).
    pub fn below(&mut self, n: usize) -> usize {
        assert!(n > 0);
        (self.next_u64() % n as u64) as usize
    }

    /// Uniform in lo..=hi.
    pub fn range(&mut self, lo: usize, hi: usize) -> usize {
        lo + self.below(hi - lo + 1)
    }

    pub fn chance(&mut self, num: usize, den: usize) -> bool {
        self.below(den) < num
    }

    pub fn pick<'a, T>(&mut self, xs: &'a [T]) -> &'a T {
        &xs[self.below(xs.len())]
    }

    pub fn shuffle<T>(&mut self, xs: &mut [T]) {
        for i in (1..xs.len()).rev() {
            let j = self.below(i + 1);
            xs.swap(i, j);
        }
    }

    /// Weighted choice; weights must not all be zero.
    pub fn weighted(&mut self, weights: &[usize]) -> usize {
        let sum: usize = weights.iter().sum();
        let mut r = self.below(sum);
        for (i, w) in weights.iter().enumerate() {
            if r < *w {
                return i;
            }
            r -= *w;
        }
        weights.len() - 1
    }
}

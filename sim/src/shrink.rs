//! Minimisation of a failing history: delta debugging over steps, sessions, faults, plans,
//! phrases and interleavings while the same oracle clause keeps failing.

use crate::history::{inline_files, judge, run_history, Ctx, History, Step, Violation};
use crate::script::*;
use std::path::Path;

pub struct Shrunk {
    pub history: History,
    pub violation: Violation,
    pub tried: usize,
    pub accepted: usize,
}

fn fails(ctx: &Ctx, h: &History, clause: &str, work: &Path, rotate: usize) -> Option<Violation> {
    let trace = run_history(ctx, h, work, rotate);
    if !trace.harness_errors.is_empty() {
        return None;
    }
    judge(ctx, h, &trace).into_iter().find(|v| v.clause == clause)
}

fn remove_query(queries: &[QuerySpec], acts: &[Act], qi: usize) -> (Vec<QuerySpec>, Vec<Act>) {
    let mut q = queries.to_vec();
    q.remove(qi);
    let map = |i: usize| if i > qi { i - 1 } else { i };
    let a = acts
        .iter()
        .filter(|a| match a {
            Act::Open(i) | Act::Step(i) | Act::Close(i) => *i != qi,
        })
        .map(|a| match a {
            Act::Open(i) => Act::Open(map(*i)),
            Act::Step(i) => Act::Step(map(*i)),
            Act::Close(i) => Act::Close(map(*i)),
        })
        .collect();
    (q, a)
}

/// All one-step simplifications of `h`, most aggressive first.
fn candidates(h: &History, v: &Violation) -> Vec<History> {
    let mut out = Vec::new();
    let with = |f: &dyn Fn(&mut History)| {
        let mut c = h.clone();
        f(&mut c);
        c
    };
    // restrict phrases to the ones in focus
    if !v.focus.is_empty() {
        for take in [1, v.focus.len()] {
            let focus: Vec<String> = v.focus.iter().take(take).cloned().collect();
            let c = with(&|c: &mut History| {
                for s in c.steps.iter_mut() {
                    if let Step::Start { session } = s {
                        for op in session.ops.iter_mut() {
                            match op {
                                Op::Ask { phrases, .. } => {
                                    if phrases.len() > focus.len() {
                                        *phrases = focus.clone();
                                    }
                                }
                                Op::OwnWords { only, .. } => {
                                    let idx: Vec<usize> = focus.iter().filter_map(|f| f.parse().ok()).collect();
                                    if !idx.is_empty() && only.as_ref().map(|o| o.len() > idx.len()).unwrap_or(true) {
                                        *only = Some(idx);
                                    }
                                }
                                _ => {}
                            }
                        }
                    }
                }
            });
            if c != *h {
                out.push(c);
            }
        }
    }
    // drop whole steps
    if h.steps.len() > 1 {
        for i in (0..h.steps.len()).rev() {
            let mut c = h.clone();
            c.steps.remove(i);
            out.push(c);
        }
    }
    for (si, s) in h.steps.iter().enumerate() {
        match s {
            Step::Start { session } => {
                // fewer faults
                for fi in 0..session.faults.len() {
                    let mut c = h.clone();
                    if let Step::Start { session } = &mut c.steps[si] {
                        session.faults.remove(fi);
                    }
                    out.push(c);
                }
                // earlier fault
                for (fi, f) in session.faults.iter().enumerate() {
                    let k = match f {
                        Fault::Kill { k, .. } | Fault::Fail { k, .. } | Fault::FailKind { k, .. } => *k,
                        _ => 0,
                    };
                    for nk in [0, k / 2, k.saturating_sub(1)] {
                        if nk < k {
                            let mut c = h.clone();
                            if let Step::Start { session } = &mut c.steps[si] {
                                match &mut session.faults[fi] {
                                    Fault::Kill { k, .. } | Fault::Fail { k, .. } | Fault::FailKind { k, .. } => *k = nk,
                                    _ => {}
                                }
                            }
                            out.push(c);
                        }
                    }
                }
                // fewer operations
                for oi in (0..session.ops.len()).rev() {
                    let mut c = h.clone();
                    if let Step::Start { session } = &mut c.steps[si] {
                        session.ops.remove(oi);
                    }
                    out.push(c);
                }
                // fewer CPUs
                for n in [1, 2, session.cpus / 2] {
                    if n >= 1 && n < session.cpus {
                        let mut c = h.clone();
                        if let Step::Start { session } = &mut c.steps[si] {
                            session.cpus = n;
                        }
                        out.push(c);
                    }
                }
                for (oi, op) in session.ops.iter().enumerate() {
                    match op {
                        Op::Open { plan, .. } if *plan != Plan::default() => {
                            let mut plans = vec![Plan::default()];
                            if !plan.release.is_empty() {
                                plans.push(Plan { bursts: plan.bursts.clone(), release: vec![], producers: plan.producers.clone() });
                            }
                            let n = plan.bursts.len();
                            if n > 1 {
                                plans.push(Plan { bursts: plan.bursts[..n / 2].to_vec(), release: plan.release.clone(), producers: plan.producers.clone() });
                                plans.push(Plan { bursts: plan.bursts[n / 2..].to_vec(), release: plan.release.clone(), producers: plan.producers.clone() });
                                // merge neighbours: fewer context switches
                                let mut merged: Vec<(u8, u16)> = Vec::new();
                                for (i, b) in plan.bursts.iter().enumerate() {
                                    if i % 2 == 1 {
                                        if let Some(last) = merged.last_mut() {
                                            last.1 = last.1.saturating_add(b.1);
                                            continue;
                                        }
                                    }
                                    merged.push(*b);
                                }
                                plans.push(Plan { bursts: merged, release: plan.release.clone(), producers: plan.producers.clone() });
                            }
                            // simpler producer schedules: none (each in turn), first half, longer stretches
                            if !plan.producers.is_empty() {
                                let m = plan.producers.len();
                                plans.push(Plan { producers: vec![], ..plan.clone() });
                                if m > 1 {
                                    plans.push(Plan { producers: plan.producers[..m / 2].to_vec(), ..plan.clone() });
                                    plans.push(Plan { producers: plan.producers[..m - 1].to_vec(), ..plan.clone() });
                                }
                                if plan.producers.iter().any(|b| b.1 != u16::MAX) {
                                    plans.push(Plan { producers: plan.producers.iter().map(|b| (b.0, u16::MAX)).collect(), ..plan.clone() });
                                }
                            }
                            for p in plans {
                                let mut c = h.clone();
                                if let Step::Start { session } = &mut c.steps[si] {
                                    if let Op::Open { plan, .. } = &mut session.ops[oi] {
                                        *plan = p;
                                    }
                                }
                                out.push(c);
                            }
                        }
                        Op::Ask { phrases, .. } if phrases.len() > 1 => {
                            let n = phrases.len();
                            for part in [&phrases[..n / 2], &phrases[n / 2..]] {
                                let mut c = h.clone();
                                if let Step::Start { session } = &mut c.steps[si] {
                                    if let Op::Ask { phrases, .. } = &mut session.ops[oi] {
                                        *phrases = part.to_vec();
                                    }
                                }
                                out.push(c);
                            }
                        }
                        Op::OwnWords { perms, .. } if *perms != Perms::Identity => {
                            let mut c = h.clone();
                            if let Step::Start { session } = &mut c.steps[si] {
                                if let Op::OwnWords { perms, .. } = &mut session.ops[oi] {
                                    *perms = Perms::Identity;
                                }
                            }
                            out.push(c);
                        }
                        Op::Interleave { queries, acts, .. } => {
                            for qi in (0..queries.len()).rev() {
                                if queries.len() > 1 {
                                    let (q, a) = remove_query(queries, acts, qi);
                                    let mut c = h.clone();
                                    if let Step::Start { session } = &mut c.steps[si] {
                                        if let Op::Interleave { queries, acts, .. } = &mut session.ops[oi] {
                                            *queries = q;
                                            *acts = a;
                                        }
                                    }
                                    out.push(c);
                                }
                            }
                            for ai in (0..acts.len()).rev() {
                                if matches!(acts[ai], Act::Step(_) | Act::Close(_)) {
                                    let mut c = h.clone();
                                    if let Step::Start { session } = &mut c.steps[si] {
                                        if let Op::Interleave { acts, .. } = &mut session.ops[oi] {
                                            acts.remove(ai);
                                        }
                                    }
                                    out.push(c);
                                }
                            }
                        }
                        Op::Threads { queries, threads, schedule, .. } => {
                            let set = |c: &mut History, q: Vec<QuerySpec>, t: Vec<Vec<usize>>, sch: Vec<u8>| {
                                if let Step::Start { session } = &mut c.steps[si] {
                                    if let Op::Threads { queries, threads, schedule, .. } = &mut session.ops[oi] {
                                        *queries = q;
                                        *threads = t;
                                        *schedule = sch;
                                    }
                                }
                            };
                            // no interleaving at all, then shorter schedules
                            if !schedule.is_empty() {
                                for sch in [Vec::new(), schedule[..schedule.len() / 2].to_vec(), schedule[..schedule.len() - 1].to_vec()] {
                                    let mut c = h.clone();
                                    set(&mut c, queries.clone(), threads.clone(), sch);
                                    out.push(c);
                                }
                            }
                            // fewer threads
                            if threads.len() > 1 {
                                for ti in (0..threads.len()).rev() {
                                    let mut t = threads.clone();
                                    t.remove(ti);
                                    let mut c = h.clone();
                                    set(&mut c, queries.clone(), t, schedule.clone());
                                    out.push(c);
                                }
                            }
                            // fewer queries per thread
                            for ti in 0..threads.len() {
                                for qi in (0..threads[ti].len()).rev() {
                                    if threads.iter().map(|t| t.len()).sum::<usize>() > 1 {
                                        let mut t = threads.clone();
                                        t[ti].remove(qi);
                                        let mut c = h.clone();
                                        set(&mut c, queries.clone(), t, schedule.clone());
                                        out.push(c);
                                    }
                                }
                            }
                            // more of "the current thread goes on"
                            for (i, b) in schedule.iter().enumerate().rev() {
                                if *b != 0 && schedule.len() <= 64 {
                                    let mut sch = schedule.clone();
                                    sch[i] = 0;
                                    let mut c = h.clone();
                                    set(&mut c, queries.clone(), threads.clone(), sch);
                                    out.push(c);
                                }
                            }
                        }
                        _ => {}
                    }
                }
            }
            Step::Cli { exact, describe, split, tty, .. } => {
                if *tty {
                    let mut c = h.clone();
                    if let Step::Cli { tty, .. } = &mut c.steps[si] {
                        *tty = false;
                    }
                    out.push(c);
                }
                if *split {
                    let mut c = h.clone();
                    if let Step::Cli { split, .. } = &mut c.steps[si] {
                        *split = false;
                    }
                    out.push(c);
                }
                if *describe {
                    let mut c = h.clone();
                    if let Step::Cli { describe, .. } = &mut c.steps[si] {
                        *describe = false;
                    }
                    out.push(c);
                }
                let _ = exact;
            }
            _ => {}
        }
    }
    out
}

pub fn shrink(ctx: &Ctx, h: &History, v: &Violation, budget: usize, work: &Path, rotate: usize) -> Shrunk {
    let mut cur = h.clone();
    inline_files(&mut cur);
    crate::history::freeze_rand(&mut cur);
    let mut curv = v.clone();
    let mut tried = 0;
    let mut accepted = 0;
    // the inlined history must still fail (it is the same history)
    'outer: loop {
        let cands = candidates(&cur, &curv);
        for c in cands {
            if tried >= budget {
                break 'outer;
            }
            tried += 1;
            if let Some(nv) = fails(ctx, &c, &v.clause, work, rotate) {
                cur = c;
                curv = nv;
                accepted += 1;
                continue 'outer;
            }
        }
        break;
    }
    Shrunk { history: cur, violation: curv, tried, accepted }
}

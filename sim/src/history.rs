//! Histories (sequences of steps over one data directory), their execution, and the oracles.

use crate::dirstate::{self, Damage, DirInfo, IndexInfo, Paths, Reference, StateSpec};
use crate::exec::{ChildOut, Exit, Launcher};
use crate::rng::fnv1a;
use crate::script::*;
use crate::shipped::{self, Shipped};
use serde::{Deserialize, Serialize};
use std::collections::BTreeMap;
use std::path::{Path, PathBuf};

#[derive(Serialize, Deserialize, Clone, Debug, PartialEq, Eq)]
#[serde(tag = "step", rename_all = "snake_case")]
pub enum Step {
    /// put the data directory into a listed prior state
    Fabricate { state: StateSpec },
    /// what the world may do between runs
    Damage {
        #[serde(flatten)]
        d: Damage,
    },
    /// one simulated process start (`simnode`)
    Start { session: Session },
    /// one simulated process start while *another running instance* holds the index writer lock of
    /// the data directory: taken before this start begins, released when this start has ended or
    /// after `hold_ms` milliseconds of real time, whichever comes first (so a start that gives up at
    /// the busy lock costs no waiting, and one that waits for the lock gets it after `hold_ms`); if
    /// the directory holds no index that opens there is nothing to hold and this is a plain start
    Contended { hold_ms: u64, session: Session },
    /// the real `any` program; `query` is the text, `exact`/`describe` the flags; `env` may carry
    /// ANYTHING_VERIF_KILL_AT / ANYTHING_VERIF_FAIL_AT (the hook module's built-in injector)
    Cli {
        query: String,
        #[serde(default)]
        exact: bool,
        #[serde(default)]
        describe: bool,
        #[serde(default)]
        env: Vec<(String, String)>,
        /// pass the query as several command-line words (split at its blanks) instead of one
        #[serde(default, skip_serializing_if = "std::ops::Not::not")]
        split: bool,
        /// make one system call of the program fail: (call, occurrence, errno), e.g. ("write", 3, "EINTR").
        /// An interrupted call is not an error: the program must print what it prints otherwise.
        #[serde(default, skip_serializing_if = "Option::is_none")]
        inject: Option<(String, usize, String)>,
        /// standard output is a pseudo terminal instead of a pipe (as when a person runs the program)
        #[serde(default, skip_serializing_if = "std::ops::Not::not")]
        tty: bool,
    },
    /// The capacity of the file system that holds the data directory (a small tmpfs mounted for
    /// histories that contain this step): from now on it has room for `free_pages` more 4 KiB pages
    /// and `free_inodes` more files/directories than it holds at this moment; None = plenty.
    /// A real full disk: whatever write, mkdir, create or rename needs more fails with ENOSPC.
    Disk {
        #[serde(default)]
        free_pages: Option<u64>,
        #[serde(default)]
        free_inodes: Option<u64>,
    },
}

const PLENTY_BYTES: u64 = 256 << 20;
const PLENTY_INODES: u64 = 100_000;

fn tmpfs_mount(target: &Path, remount: bool, bytes: u64, inodes: u64) -> Result<(), String> {
    use std::ffi::CString;
    use std::os::unix::ffi::OsStrExt;
    let tgt = CString::new(target.as_os_str().as_bytes()).map_err(|e| e.to_string())?;
    let src = CString::new("tmpfs").unwrap();
    let data = CString::new(format!("size={bytes},nr_inodes={inodes},mode=0700")).unwrap();
    let flags = if remount { libc::MS_REMOUNT } else { 0 };
    let rc = unsafe { libc::mount(src.as_ptr(), tgt.as_ptr(), src.as_ptr(), flags, data.as_ptr() as *const libc::c_void) };
    if rc == 0 {
        Ok(())
    } else {
        Err(format!("mount({}{}): {}", target.display(), if remount { ", remount" } else { "" }, std::io::Error::last_os_error()))
    }
}

pub fn tmpfs_umount(target: &Path) {
    use std::ffi::CString;
    use std::os::unix::ffi::OsStrExt;
    if let Ok(tgt) = CString::new(target.as_os_str().as_bytes()) {
        unsafe {
            libc::umount2(tgt.as_ptr(), libc::MNT_DETACH);
        }
    }
}

/// (used pages, used inodes) of the file system holding `p`.
fn fs_usage(p: &Path) -> Option<(u64, u64)> {
    use std::ffi::CString;
    use std::os::unix::ffi::OsStrExt;
    let c = CString::new(p.as_os_str().as_bytes()).ok()?;
    let mut st: libc::statfs = unsafe { std::mem::zeroed() };
    if unsafe { libc::statfs(c.as_ptr(), &mut st) } != 0 {
        return None;
    }
    Some(((st.f_blocks as u64).saturating_sub(st.f_bfree as u64), (st.f_files as u64).saturating_sub(st.f_ffree as u64)))
}

/// Can this process mount a tmpfs (needed for the full-disk fault)?
pub fn can_mount(scratch: &Path) -> bool {
    let probe = scratch.join("mount-probe");
    if std::fs::create_dir_all(&probe).is_err() {
        return false;
    }
    let ok = tmpfs_mount(&probe, false, 1 << 20, 100).is_ok();
    if ok {
        tmpfs_umount(&probe);
    }
    let _ = std::fs::remove_dir(&probe);
    ok
}

#[derive(Serialize, Deserialize, Clone, Debug, PartialEq, Eq)]
pub struct History {
    pub property: String,
    pub seed: u64,
    pub label: String,
    pub steps: Vec<Step>,
}

#[derive(Serialize, Deserialize, Clone, Debug)]
pub struct StepOut {
    pub dir: DirInfo,
    pub child: Option<ChildOut>,
    /// the step ran the alternative build; `dir` is then judged against that build's data
    #[serde(default)]
    pub alt: bool,
    /// which build ran the step: 0 this tree, 1 other data, 2 other version
    #[serde(default)]
    pub build: u8,
}

#[derive(Serialize, Deserialize, Clone, Debug, Default)]
pub struct Trace {
    pub steps: Vec<StepOut>,
    pub harness_errors: Vec<String>,
}

#[derive(Serialize, Deserialize, Clone, Debug, PartialEq, Eq)]
pub struct Violation {
    pub property: String,
    /// the oracle clause that failed (the "violation class" kept fixed while minimising)
    pub clause: String,
    pub step: usize,
    pub detail: String,
    /// phrases / queries involved (for minimisation)
    pub focus: Vec<String>,
    /// abstract signature used to match known findings
    pub signature: String,
}

pub struct Ctx {
    pub launcher: Launcher,
    pub repo: String,
    pub shipped: Shipped,
    pub reference: Reference,
    pub scratch: PathBuf,
    pub expected_docs: usize,
    /// C15 phrases: own words of all typeable constants + the foreign index's fake phrases
    pub qprime: Vec<String>,
    pub qprime_file: PathBuf,
    /// C14 phrases
    pub q14: Vec<String>,
    pub q14_keep: Vec<usize>,
    pub q14_file: PathBuf,
    /// a second build of the same code with other embedded data (C15 "written for other data")
    pub alt: Option<Box<Alt>>,
    /// a third build of the same code and data under another version number, with another tokenizer
    /// configuration (C15 "written by another version", for real)
    pub ver: Option<Box<Alt>>,
    /// a fourth build: same code, version and file contents, the first fact asset renamed so that it
    /// is indexed last (C15 "written for other data": the same facts in another order are other data
    /// to every query that ties across assets)
    pub ren: Option<Box<Alt>>,
    /// a fifth build: the repository at the recorded baseline commit (absent when the tree under test
    /// does not differ from it)
    pub base: Option<Box<Alt>>,
    /// number of tie phrases in `qprime` (between the own words and the fake phrases)
    pub qprime_ties: usize,
    /// the ptrace injector (strace) is usable in this sandbox
    pub caps_strace: bool,
}

pub struct Alt {
    pub launcher: Launcher,
    pub repo: String,
    pub shipped: Shipped,
    pub reference: Reference,
}

impl Ctx {
    pub fn session(&self, cpus: usize, faults: Vec<Fault>, ops: Vec<Op>) -> Session {
        Session { cpus, faults, ops, expected_docs: self.expected_docs, repo: self.repo.clone(), alt: false, ver: false, ren: false, base: false, env: vec![], rand: 0 }
    }
    /// the data and reference of build 0 (this tree), 1 (other data) or 2 (other version)
    pub fn side_b(&self, build: u8) -> (&Shipped, &Reference) {
        match (build, &self.alt, &self.ver, &self.ren) {
            (1, Some(a), _, _) => (&a.shipped, &a.reference),
            (2, _, Some(v), _) => (&v.shipped, &v.reference),
            (3, _, _, Some(r)) => (&r.shipped, &r.reference),
            _ => match (build, &self.base) {
                (4, Some(b)) => (&b.shipped, &b.reference),
                _ => (&self.shipped, &self.reference),
            },
        }
    }
    /// the data and reference against which step `i` of a trace is judged
    pub fn side(&self, alt: bool) -> (&Shipped, &Reference) {
        match (&self.alt, alt) {
            (Some(a), true) => (&a.shipped, &a.reference),
            _ => (&self.shipped, &self.reference),
        }
    }
}

/// Replace file references by explicit phrase lists (self-contained replays, phrase shrinking).
pub fn inline_files(h: &mut History) {
    for s in h.steps.iter_mut() {
        if let Step::Start { session } | Step::Contended { session, .. } = s {
            for op in session.ops.iter_mut() {
                if let Op::Ask { phrases, file, subset, .. } = op {
                    if let Some(f) = file.take() {
                        if let Ok(text) = std::fs::read_to_string(&f) {
                            if let Ok(all) = serde_json::from_str::<Vec<String>>(&text) {
                                match subset.take() {
                                    Some(idx) => phrases.extend(idx.iter().filter_map(|i| all.get(*i).cloned())),
                                    None => phrases.extend(all),
                                }
                            }
                        }
                    }
                }
            }
        }
    }
}

/// The randomness seed of step `i` when the step does not carry one of its own.
pub fn step_rand(h: &History, i: usize) -> u64 {
    crate::rng::derive(h.seed, "step-rand", i as u64) | 1
}

/// Write the derived randomness seeds into the sessions, so that dropping or reordering steps (as
/// the minimiser does) no longer changes what each remaining process start draws.
pub fn freeze_rand(h: &mut History) {
    for i in 0..h.steps.len() {
        let r = step_rand(h, i);
        if let Step::Start { session } | Step::Contended { session, .. } = &mut h.steps[i] {
            if session.rand == 0 {
                session.rand = r;
            }
        }
    }
}

pub fn run_history(ctx: &Ctx, h: &History, work: &Path, rotate: usize) -> Trace {
    let mut trace = Trace::default();
    let _ = std::fs::remove_dir_all(work);
    if let Err(e) = std::fs::create_dir_all(work) {
        trace.harness_errors.push(format!("scratch {}: {e}", work.display()));
        return trace;
    }
    let xdg = Paths::new(work.join("xdg"));
    if let Err(e) = dirstate::wipe(&xdg) {
        trace.harness_errors.push(format!("wipe: {e}"));
        return trace;
    }
    let own_disk = h.steps.iter().any(|s| matches!(s, Step::Disk { .. }));
    if own_disk {
        if let Err(e) = tmpfs_mount(&xdg.root, false, PLENTY_BYTES, PLENTY_INODES) {
            trace.harness_errors.push(e);
            return trace;
        }
    }
    let mut disk_limited: Option<String> = None;
    for (i, step) in h.steps.iter().enumerate() {
        let child = match step {
            Step::Disk { free_pages, free_inodes } => {
                match fs_usage(&xdg.root) {
                    Some((pages, inodes)) => {
                        let bytes = free_pages.map(|f| (pages + f) * 4096).unwrap_or(PLENTY_BYTES).max(4096);
                        let n = free_inodes.map(|f| inodes + f).unwrap_or(PLENTY_INODES).max(1);
                        if let Err(e) = tmpfs_mount(&xdg.root, true, bytes, n) {
                            trace.harness_errors.push(e);
                        }
                        disk_limited = if free_pages.is_some() || free_inodes.is_some() {
                            Some(format!("pages+{},inodes+{}", free_pages.map(|f| f.to_string()).unwrap_or("inf".into()), free_inodes.map(|f| f.to_string()).unwrap_or("inf".into())))
                        } else {
                            None
                        };
                    }
                    None => trace.harness_errors.push("statfs of the data file system failed".into()),
                }
                None
            }
            Step::Fabricate { state } => {
                if let Err(e) = dirstate::fabricate(&xdg, state, &ctx.reference) {
                    trace.harness_errors.push(format!("fabricate: {e}"));
                }
                None
            }
            Step::Damage { d } => {
                if let Err(e) = dirstate::damage(&xdg, d, &ctx.reference) {
                    trace.harness_errors.push(format!("damage: {e}"));
                }
                None
            }
            Step::Start { session } | Step::Contended { session, .. } => {
                let hold_ms = if let Step::Contended { hold_ms, .. } = step { Some(*hold_ms) } else { None };
                let mut s = session.clone();
                if s.expected_docs == 0 {
                    s.expected_docs = ctx.expected_docs;
                }
                let launcher = match (&ctx.alt, s.alt, &ctx.ver, s.ver) {
                    (Some(a), true, _, _) => {
                        s.repo = a.repo.clone();
                        s.expected_docs = a.shipped.docs();
                        &a.launcher
                    }
                    (_, _, Some(v), true) => {
                        s.repo = v.repo.clone();
                        s.expected_docs = v.shipped.docs();
                        &v.launcher
                    }
                    _ => match (&ctx.ren, s.ren) {
                        (Some(r), true) => {
                            s.repo = r.repo.clone();
                            s.expected_docs = r.shipped.docs();
                            &r.launcher
                        }
                        _ => match (&ctx.base, s.base) {
                            (Some(b), true) => {
                                s.repo = b.repo.clone();
                                s.expected_docs = b.shipped.docs();
                                &b.launcher
                            }
                            _ => &ctx.launcher,
                        },
                    },
                };
                if s.repo.is_empty() {
                    s.repo = ctx.repo.clone();
                }
                if s.rand == 0 {
                    s.rand = step_rand(h, i);
                }
                let mut out = match hold_ms {
                    None => launcher.simnode(&xdg, work, &format!("s{i}"), &s, rotate),
                    Some(ms) => {
                        // the other instance first; this start begins once it holds the lock (or has
                        // found nothing to hold)
                        let marker = xdg.root.join(".verif-holding");
                        let release = xdg.root.join(".verif-release");
                        let _ = std::fs::remove_file(&marker);
                        let _ = std::fs::remove_file(&release);
                        let holder = Session { cpus: 1, faults: vec![], ops: vec![Op::HoldWriter { ms: ms + 60_000 }], expected_docs: 0, repo: s.repo.clone(), alt: false, ver: false, ren: false, base: false, env: vec![], rand: 1 };
                        let (out, held) = std::thread::scope(|sc| {
                            let hj = sc.spawn(|| ctx.launcher.simnode(&xdg, work, &format!("h{i}"), &holder, rotate));
                            let t0 = std::time::Instant::now();
                            while !marker.exists() && !hj.is_finished() && t0.elapsed() < std::time::Duration::from_secs(20) {
                                std::thread::sleep(std::time::Duration::from_millis(5));
                            }
                            let sj = sc.spawn(|| launcher.simnode(&xdg, work, &format!("s{i}"), &s, rotate));
                            let t1 = std::time::Instant::now();
                            while !sj.is_finished() && t1.elapsed() < std::time::Duration::from_millis(ms) {
                                std::thread::sleep(std::time::Duration::from_millis(5));
                            }
                            let _ = std::fs::write(&release, b"");
                            let out = sj.join().unwrap_or_else(|_| ChildOut { exit: Exit::SpawnFailed { why: "session thread panicked".into() }, events: vec![], stdout: String::new(), stderr: String::new() });
                            let hout = hj.join().unwrap_or_else(|_| ChildOut { exit: Exit::SpawnFailed { why: "holder thread panicked".into() }, events: vec![], stdout: String::new(), stderr: String::new() });
                            let held = hout.events.iter().any(|e| matches!(e, Event::Held { held: true, .. }));
                            (out, held)
                        });
                        let _ = std::fs::remove_file(&marker);
                        let _ = std::fs::remove_file(&release);
                        let mut out = out;
                        // the held lock "fired" when this start could not do what it set out to do
                        let failed = out.exit != (Exit::Code { code: 0 }) || builds(&out).iter().any(|b| b.error.is_some());
                        if held && failed && out.fault_fired().is_none() {
                            out.events.push(Event::FaultFired { kind: "lock-held".into(), point: "index.writer".into(), k: 0 });
                        }
                        out.events.push(Event::Held { held, why: String::new() });
                        out
                    }
                };
                if let Some(e) = out.harness_error() {
                    trace.harness_errors.push(format!("step {i}: {e}"));
                }
                if let Some(limit) = &disk_limited {
                    // the full disk "fired" when this start could not do what it set out to do
                    let failed = out.exit != (Exit::Code { code: 0 }) || builds(&out).iter().any(|b| b.error.is_some());
                    if failed && out.fault_fired().is_none() {
                        out.events.push(Event::FaultFired { kind: "disk-full".into(), point: limit.clone(), k: 0 });
                    }
                }
                Some(out)
            }
            Step::Cli { query, exact, describe, env, split, inject, tty } => {
                let mut args = Vec::new();
                if *exact {
                    args.push("--exact".to_string());
                }
                if *describe {
                    args.push("--describe".to_string());
                }
                args.push("--".to_string());
                // the program joins its words with one blank: splitting at every single blank is the
                // same query (blanks at the ends or doubled give empty words: `any "" 1m` is " 1m")
                if *split && !query.is_empty() {
                    args.extend(query.split(' ').map(|w| w.to_string()));
                } else {
                    args.push(query.clone());
                }
                let out = if *tty && inject.is_none() { ctx.launcher.any_on(&xdg, work, &args, env, step_rand(h, i), true) } else { ctx.launcher.any(&xdg, work, &args, env, inject.as_ref(), step_rand(h, i)) };
                if let Some(e) = out.harness_error() {
                    trace.harness_errors.push(format!("step {i}: {e}"));
                }
                Some(out)
            }
        };
        let alt = matches!(step, Step::Start { session } if session.alt) && ctx.alt.is_some();
        let ver = matches!(step, Step::Start { session } if session.ver) && ctx.ver.is_some();
        let ren = matches!(step, Step::Start { session } if session.ren) && ctx.ren.is_some();
        let base = matches!(step, Step::Start { session } if session.base) && ctx.base.is_some();
        let build = if alt { 1 } else if ver { 2 } else if ren { 3 } else if base { 4 } else { 0 };
        let dir = dirstate::inspect(&xdg, ctx.side_b(build).0);
        trace.steps.push(StepOut { dir, child, alt, build });
    }
    if own_disk {
        tmpfs_umount(&xdg.root);
    }
    let _ = std::fs::remove_dir_all(work);
    trace
}

// ---------------------------------------------------------------------------------------------
// helpers over traces

pub fn builds(c: &ChildOut) -> Vec<&BuildInfo> {
    c.events.iter().filter_map(|e| if let Event::Build(b) = e { Some(b) } else { None }).collect()
}

pub fn answers(c: &ChildOut, slot: usize) -> Vec<&Answer> {
    let mut out = Vec::new();
    for e in &c.events {
        if let Event::Answers { slot: s, answers, .. } = e {
            if *s == slot {
                out.extend(answers.iter());
            }
        }
    }
    out
}

/// A start counts as disturbed when a kill or a non-retryable failure was actually injected.
pub fn disturbed(c: &ChildOut) -> bool {
    matches!(c.fault_fired(), Some((kind, _, _)) if kind == "kill" || kind == "fail" || kind == "sys-kill" || kind == "sys-error" || kind == "disk-full" || kind == "lock-held")
}

fn fmt_res(r: &[Res]) -> String {
    r.iter()
        .map(|r| match r {
            Res::Ok { num, den, unit, .. } => format!("{num}/{den} [{unit}]"),
            Res::Err { msg, start, end } => format!("error({msg} @{start}..{end})"),
        })
        .collect::<Vec<_>>()
        .join(", ")
}

fn fmt_answer(a: &Answer) -> String {
    let d: Vec<String> = a.descs.iter().map(|d| format!("{:?}=>{:?}{:?}", d.phrase, d.description, d.tokens)).collect();
    format!("{} via [{}]", fmt_res(&a.results), d.join(", "))
}

fn strip_detail(r: &[Res]) -> Vec<Res> {
    r.iter()
        .map(|r| match r {
            Res::Ok { num, den, unit, .. } => Res::Ok { num: num.clone(), den: den.clone(), unit: unit.clone(), detail: None },
            e => e.clone(),
        })
        .collect()
}

fn same_answer(a: &Answer, b: &Answer) -> bool {
    strip_detail(&a.results) == strip_detail(&b.results) && a.descs == b.descs
}

fn prior_class(ctx: &Ctx, trace: &Trace, step: usize) -> String {
    if step == 0 {
        "meta[absent] index[absent]".to_string()
    } else {
        let p = &trace.steps[step - 1];
        format!("{}{}", p.dir.class(ctx.side_b(p.build).1), match p.build { 1 => " (other build)", 2 => " (other version)", _ => "" })
    }
}

fn faults_sig(h: &History, trace: &Trace) -> String {
    let mut v = Vec::new();
    for (i, s) in h.steps.iter().enumerate() {
        if let Some(c) = trace.steps.get(i).and_then(|s| s.child.as_ref()) {
            if let Some((kind, point, _)) = c.fault_fired() {
                v.push(format!("{kind}@{point}"));
            } else if let Step::Cli { env, .. } = s {
                for (k, val) in env {
                    if k.starts_with("ANYTHING_VERIF_") {
                        let kind = if k.ends_with("KILL_AT") { "kill" } else { "fail" };
                        v.push(format!("{kind}@{}", val.split('#').next().unwrap_or("")));
                    }
                }
            }
        }
    }
    v.join("+")
}

// ---------------------------------------------------------------------------------------------
// oracles

/// Session health shared by all properties: an undisturbed start must run to its end, exit 0 and
/// open every database it was asked to.
fn judge_health(prop: &str, h: &History, trace: &Trace, out: &mut Vec<Violation>) {
    for (i, s) in h.steps.iter().enumerate() {
        let Step::Start { .. } = s else { continue };
        let Some(c) = trace.steps.get(i).and_then(|s| s.child.as_ref()) else { continue };
        if disturbed(c) || c.harness_error().is_some() {
            continue;
        }
        let mut bad = None;
        for b in builds(c) {
            if let Some(e) = &b.error {
                bad = Some(format!("opening the {} database failed: {}", b.mode, e.lines().next().unwrap_or("")));
            }
        }
        if bad.is_none() {
            match &c.exit {
                Exit::Code { code: 0 } if c.ended() => {}
                Exit::Code { code: 0 } => bad = Some("process exited before finishing its script".into()),
                Exit::Code { code } => bad = Some(format!("process exited with status {code}: {}", c.stderr.lines().last().unwrap_or(""))),
                Exit::Signal { sig } => bad = Some(format!("process died with signal {sig}: {}", c.stderr.lines().last().unwrap_or(""))),
                _ => {}
            }
        }
        if let Some(detail) = bad {
            out.push(Violation {
                property: prop.to_string(),
                clause: format!("{prop}.start-failed"),
                step: i,
                detail,
                focus: vec![],
                signature: format!("{prop}.start-failed"),
            });
        }
    }
}

/// C14: every session of the history returns the same constant (or the same error) for every phrase.
pub fn judge_c14(_ctx: &Ctx, h: &History, trace: &Trace) -> Vec<Violation> {
    let mut out = Vec::new();
    judge_health("C14", h, trace, &mut out);
    // sessions of one build are compared with each other (another build ships other data)
    let mut first: BTreeMap<(u8, String), (usize, usize, &Answer)> = BTreeMap::new();
    let mut bad: BTreeMap<String, (usize, String)> = BTreeMap::new();
    for (i, so) in trace.steps.iter().enumerate() {
        let Some(c) = &so.child else { continue };
        for e in &c.events {
            let Event::Answers { slot, answers, .. } = e else { continue };
            for a in answers {
                match first.get(&(so.build, a.q.clone())) {
                    None => {
                        first.insert((so.build, a.q.clone()), (i, *slot, a));
                    }
                    Some((fi, fslot, fa)) => {
                        if !same_answer(fa, a) && !bad.contains_key(&a.q) {
                            bad.insert(
                                a.q.clone(),
                                (i, format!("{:?}: step {fi} db {fslot} answered {} but step {i} db {slot} answered {}", a.q, fmt_answer(fa), fmt_answer(a))),
                            );
                        }
                    }
                }
            }
        }
    }
    if !bad.is_empty() {
        let (step, detail) = bad.values().next().cloned().unwrap();
        out.push(Violation {
            property: "C14".into(),
            clause: "C14.sessions-disagree".into(),
            step,
            detail: format!("{} phrase(s) answered differently by differently built indexes; e.g. {detail}", bad.len()),
            focus: bad.keys().take(4).cloned().collect(),
            signature: "C14.sessions-disagree".into(),
        });
    }
    out
}

/// C15: durability invariant after every start, recovery equality after every undisturbed start.
pub fn judge_c15(ctx: &Ctx, h: &History, trace: &Trace) -> Vec<Violation> {
    let mut out = Vec::new();
    judge_health("C15", h, trace, &mut out);
    let fsig = faults_sig(h, trace);
    let mut last_good_answers: Option<(usize, Vec<Answer>)> = None;
    for (i, s) in h.steps.iter().enumerate() {
        let Some(so) = trace.steps.get(i) else { break };
        let is_run = matches!(s, Step::Start { .. } | Step::Cli { .. });
        if !is_run {
            last_good_answers = None;
            continue;
        }
        let reference = ctx.side_b(so.build).1;
        // 1. never current before committed
        if so.dir.meta_is_current(reference) {
            if let IndexInfo::Open { shipped: false, docs, missing, extra, undecodable, .. } = &so.dir.index {
                out.push(Violation {
                    property: "C15".into(),
                    clause: "C15.current-before-committed".into(),
                    step: i,
                    detail: format!(
                        "after step {i} meta.json records the index as current, but the index that opens holds {docs} documents ({missing} shipped facts missing, {extra} foreign, {undecodable} undecodable); directory before the step: {}",
                        prior_class(ctx, trace, i)
                    ),
                    focus: vec![],
                    signature: format!("C15.current-before-committed|prior={}|faults={fsig}", prior_class(ctx, trace, i)),
                });
            }
        }
        let Some(c) = &so.child else { continue };
        let Step::Start { session } = s else { continue };
        if disturbed(c) || c.harness_error().is_some() {
            last_good_answers = None;
            continue;
        }
        let opened_disk = session.ops.iter().any(|o| matches!(o, Op::Open { mode: Mode::Disk, .. }));
        if !opened_disk {
            continue;
        }
        let disk_ok = builds(c).iter().any(|b| b.mode == "disk" && b.error.is_none());
        if !disk_ok {
            continue; // reported by judge_health
        }
        // 2. recovery: answers equal those of a fresh in-memory database in the same process
        let disk = answers(c, 0);
        let mem = answers(c, 1);
        let memmap: BTreeMap<&str, &Answer> = mem.iter().map(|a| (a.q.as_str(), *a)).collect();
        let mut diffs = Vec::new();
        for a in &disk {
            if let Some(m) = memmap.get(a.q.as_str()) {
                if !same_answer(a, m) {
                    diffs.push((a.q.clone(), format!("{:?}: on-disk database answered {} but a fresh in-memory database answers {}", a.q, fmt_answer(a), fmt_answer(m))));
                }
            }
        }
        if !diffs.is_empty() {
            out.push(Violation {
                property: "C15".into(),
                clause: "C15.recovery-answers".into(),
                step: i,
                detail: format!(
                    "undisturbed start at step {i} (directory before it: {}) answered {} of {} phrases differently from a fresh in-memory database; e.g. {}",
                    prior_class(ctx, trace, i),
                    diffs.len(),
                    disk.len(),
                    diffs[0].1
                ),
                focus: diffs.iter().take(3).map(|d| d.0.clone()).collect(),
                signature: format!("C15.recovery-answers|prior={}|faults={fsig}", prior_class(ctx, trace, i)),
            });
        }
        // ... and afterwards the directory is current and complete
        let complete = matches!(&so.dir.index, IndexInfo::Open { shipped: true, .. });
        if !(so.dir.meta_is_current(reference) && complete) {
            out.push(Violation {
                property: "C15".into(),
                clause: "C15.recovery-state".into(),
                step: i,
                detail: format!(
                    "after the undisturbed start at step {i} the directory is {} (expected current metadata over the complete shipped index); before: {}",
                    so.dir.class(reference),
                    prior_class(ctx, trace, i)
                ),
                focus: vec![],
                signature: format!("C15.recovery-state|prior={}|faults={fsig}", prior_class(ctx, trace, i)),
            });
        }
        // 3. a following reopen gives the same answers
        let disk_owned: Vec<Answer> = disk.iter().map(|a| (*a).clone()).collect();
        if let Some((pi, prev)) = last_good_answers.as_ref().filter(|(pi, _)| trace.steps[*pi].build == so.build) {
            let pm: BTreeMap<&str, &Answer> = prev.iter().map(|a| (a.q.as_str(), a)).collect();
            let mut d = Vec::new();
            for a in &disk_owned {
                if let Some(p) = pm.get(a.q.as_str()) {
                    if !same_answer(a, p) {
                        d.push(a.q.clone());
                    }
                }
            }
            if !d.is_empty() {
                out.push(Violation {
                    property: "C15".into(),
                    clause: "C15.reopen-differs".into(),
                    step: i,
                    detail: format!("start at step {i} answered {} phrase(s) differently from the start at step {pi} on the same directory, e.g. {:?}", d.len(), d[0]),
                    focus: d.into_iter().take(3).collect(),
                    signature: format!("C15.reopen-differs|faults={fsig}"),
                });
            }
        }
        last_good_answers = Some((i, disk_owned));
    }
    out
}

/// C16: every own-words lookup succeeded in every index state the history reached.
pub fn judge_c16(ctx: &Ctx, h: &History, trace: &Trace) -> Vec<Violation> {
    let mut out = Vec::new();
    judge_health("C16", h, trace, &mut out);
    // the word multisets of the shipped constants: a caller-thread query is judged as "a fact's own
    // words" only if it is one (the minimiser also shortens phrases; what remains is just a query)
    let own_sets: std::collections::BTreeSet<Vec<String>> = ctx
        .shipped
        .all_tokens()
        .into_iter()
        .map(|mut t| {
            t.sort();
            t
        })
        .collect();
    for (i, so) in trace.steps.iter().enumerate() {
        let Some(c) = &so.child else { continue };
        for e in &c.events {
            if let Event::OwnWords { fails, typeable, queries, slot, .. } = e {
                if !fails.is_empty() {
                    let f = &fails[0];
                    out.push(Violation {
                        property: "C16".into(),
                        clause: "C16.own-words".into(),
                        step: i,
                        detail: format!(
                            "{} of {queries} own-word queries ({typeable} typeable constants) failed in db {slot} at step {i}; e.g. constant #{} asked as {:?}: {}",
                            fails.len(),
                            f.index,
                            f.phrase,
                            f.why
                        ),
                        focus: fails.iter().take(3).map(|f| f.index.to_string()).collect(),
                        signature: "C16.own-words".into(),
                    });
                } else if *typeable == 0 {
                    out.push(Violation {
                        property: "C16".into(),
                        clause: "C16.nothing-typeable".into(),
                        step: i,
                        detail: "no shipped constant can be typed at all".into(),
                        focus: vec![],
                        signature: "C16.nothing-typeable".into(),
                    });
                }
            }
            // own words asked by caller threads (each query is one fact's words)
            if let Event::Interleave { queries, .. } = e {
                let mut bad: Vec<String> = Vec::new();
                for q in queries {
                    let words: Vec<&str> = q.text.trim_start_matches('{').trim_end_matches('}').split_whitespace().collect();
                    let mut sorted: Vec<String> = words.iter().map(|w| w.to_string()).collect();
                    sorted.sort();
                    if !own_sets.contains(&sorted) {
                        continue;
                    }
                    let why = if q.results.len() != 1 {
                        Some(format!("{} results", q.results.len()))
                    } else if let Res::Err { msg, .. } = &q.results[0] {
                        Some(format!("error: {msg}"))
                    } else if q.descs.len() != 1 {
                        Some(format!("{} descriptions", q.descs.len()))
                    } else {
                        let d = &q.descs[0];
                        if let Some(w) = words.iter().find(|w| !d.tokens.iter().any(|t| t == *w)) {
                            Some(format!("returned constant {:?} ({}) lacks the word {w:?}", d.tokens, d.description))
                        } else if !d.source_resolves {
                            Some(format!("source {:?} does not resolve", d.source))
                        } else {
                            match &q.results[0] {
                                Res::Ok { num, den, unit, .. } if *num != d.num || *den != d.den || *unit != d.unit => Some(format!("value {num}/{den} {unit} is not the described constant's")),
                                _ => None,
                            }
                        }
                    };
                    if let Some(why) = why {
                        bad.push(format!("{:?}: {why}", q.text));
                    }
                }
                if !bad.is_empty() {
                    out.push(Violation {
                        property: "C16".into(),
                        clause: "C16.own-words-concurrent-callers".into(),
                        step: i,
                        detail: format!("{} of {} own-word queries asked by caller threads on one handle failed; e.g. {}", bad.len(), queries.len(), bad[0]),
                        focus: vec![],
                        signature: "C16.own-words-concurrent-callers".into(),
                    });
                }
            }
        }
    }
    out
}

/// C18: isolation, describe-independence, descriptions == recorded lookups.
pub fn judge_c18(_ctx: &Ctx, h: &History, trace: &Trace) -> Vec<Violation> {
    let mut out = Vec::new();
    judge_health("C18", h, trace, &mut out);
    for (i, so) in trace.steps.iter().enumerate() {
        let Some(c) = &so.child else { continue };
        for e in &c.events {
            let Event::Interleave { queries, .. } = e else { continue };
            for (qi, q) in queries.iter().enumerate() {
                let mut push = |clause: &str, detail: String| {
                    out.push(Violation {
                        property: "C18".into(),
                        clause: clause.to_string(),
                        step: i,
                        detail,
                        focus: vec![q.text.clone()],
                        signature: clause.to_string(),
                    })
                };
                // isolation
                let n = q.results.len();
                let iso_prefix = &q.iso_results[..n.min(q.iso_results.len())];
                if q.results != iso_prefix || (q.exhausted && n != q.iso_results.len()) {
                    push(
                        "C18.isolation",
                        format!(
                            "query #{qi} {:?} (describe={}) stepped among other queries gave [{}] but alone on a fresh database gives [{}]",
                            q.text,
                            q.describe,
                            fmt_res(&q.results),
                            fmt_res(&q.iso_results)
                        ),
                    );
                }
                // describing does not change the answer
                if q.iso_results != q.iso_flip_results {
                    push(
                        "C18.describe-changes-answer",
                        format!("{:?} alone gives [{}] with describe={} but [{}] with describe={}", q.text, fmt_res(&q.iso_results), q.describe, fmt_res(&q.iso_flip_results), !q.describe),
                    );
                }
                // descriptions are exactly the lookups, in evaluation order
                let hits: Vec<&Desc> = q.lookups.iter().filter_map(|l| l.hit.as_ref()).collect();
                if q.describe {
                    let same = hits.len() == q.descs.len()
                        && hits.iter().zip(q.descs.iter()).all(|(h, d)| {
                            h.phrase == d.phrase && h.description == d.description && h.tokens == d.tokens && h.num == d.num && h.den == d.den && h.unit == d.unit && h.source == d.source
                        });
                    if !same {
                        let f = |d: &Desc| format!("{:?}=>{:?}", d.phrase, d.description);
                        push(
                            "C18.descriptions-vs-lookups",
                            format!(
                                "query #{qi} {:?}: reported descriptions [{}] but the lookups that actually ran were [{}]",
                                q.text,
                                q.descs.iter().map(f).collect::<Vec<_>>().join(", "),
                                hits.iter().map(|d| f(d)).collect::<Vec<_>>().join(", ")
                            ),
                        );
                    }
                    if q.exhausted && q.descs != q.iso_descs {
                        push(
                            "C18.descriptions-isolation",
                            format!("query #{qi} {:?}: descriptions differ from those of the same query alone on a fresh database", q.text),
                        );
                    }
                } else if !q.descs.is_empty() {
                    push("C18.descriptions-when-off", format!("query #{qi} {:?}: {} descriptions reported although describing was off", q.text, q.descs.len()));
                }
                // a single-phrase query evaluates to exactly the looked-up constant
                if shipped::is_phrase(&q.text, &q.text) && q.results.len() == 1 && q.lookups.len() == 1 {
                    if let (Res::Ok { num, den, unit, .. }, Some(hit)) = (&q.results[0], &q.lookups[0].hit) {
                        if *num != hit.num || *den != hit.den || *unit != hit.unit {
                            push(
                                "C18.value-is-looked-up-constant",
                                format!("{:?} evaluated to {num}/{den} [{unit}] but the constant looked up is {:?} = {}/{} [{}]", q.text, hit.description, hit.num, hit.den, hit.unit),
                            );
                        }
                    }
                }
            }
        }
    }
    out
}

/// Does `text` (what the library rendered, and the program printed, for the value `num/den` in decimal
/// mode) denote that value at the precision it is printed with? Read back with its exponent it must
/// lie within one unit of its last printed digit of the value (so both cutting off and rounding
/// pass), with the right sign. This judges the printed digits against the computed *value*, not
/// against the library's own rendering of it. It deliberately does not judge *how* the last digit is
/// obtained or when the continuation mark appears: that is C08's statement, not C19's (see DESIGN 14.9).
pub fn faithful_decimal(text: &str, num: &str, den: &str) -> Result<(), String> {
    use num::bigint::BigInt;
    use num::{Signed, Zero};
    let n: BigInt = num.parse().map_err(|_| "numerator does not parse".to_string())?;
    let d: BigInt = den.parse().map_err(|_| "denominator does not parse".to_string())?;
    if d.is_zero() {
        return Err("zero denominator".into());
    }
    let negative_value = (n.is_negative()) != (d.is_negative()) && !n.is_zero();
    let (n, d) = (n.abs(), d.abs());
    let (neg_text, body) = match text.strip_prefix('-') {
        Some(b) => (true, b),
        None => (false, text),
    };
    let (mant, exp) = match body.split_once('e') {
        Some((m, e)) => (m, e.parse::<i64>().map_err(|_| format!("exponent of {text:?} does not parse"))?),
        None => (body, 0),
    };
    let mant = mant.strip_suffix('…').unwrap_or(mant);
    let (int, frac) = mant.split_once('.').unwrap_or((mant, ""));
    if int.is_empty() || !int.bytes().all(|b| b.is_ascii_digit()) || !frac.bytes().all(|b| b.is_ascii_digit()) {
        return Err(format!("{text:?} is not a decimal"));
    }
    let m: BigInt = format!("{int}{frac}").parse().map_err(|_| format!("{text:?} is not a decimal"))?;
    // printed magnitude = m * 10^(-scale)
    let scale = frac.len() as i64 - exp;
    let ten = BigInt::from(10);
    let pow = |k: i64| num::pow(ten.clone(), k as usize);
    // compare x * 10^(-scale) with n/d:   x * d * 10^max(0,-scale)   vs   n * 10^max(0,scale)
    let lhs = |x: &BigInt| x * &d * pow((-scale).max(0));
    let rhs = &n * pow(scale.max(0));
    // (m - 1) * ulp < value < (m + 1) * ulp
    if lhs(&(&m + 1)) <= rhs || (!m.is_zero() && lhs(&(&m - 1)) >= rhs) {
        return Err(format!("{text:?} is more than one unit of its last digit away from the value {num}/{den}"));
    }
    if neg_text != negative_value && !m.is_zero() {
        return Err(format!("{text:?} has the wrong sign for {num}/{den}"));
    }
    Ok(())
}

/// `num/den` in lowest terms with a positive denominator.
pub fn reduced(num: &str, den: &str) -> Result<(String, String), String> {
    use num::bigint::BigInt;
    use num::{Integer, Signed, Zero};
    let n: BigInt = num.parse().map_err(|_| "numerator does not parse".to_string())?;
    let d: BigInt = den.parse().map_err(|_| "denominator does not parse".to_string())?;
    if d.is_zero() {
        return Err("zero denominator".into());
    }
    let g = n.gcd(&d);
    let (mut n, mut d) = if g.is_zero() { (n, d) } else { (&n / &g, &d / &g) };
    if d.is_negative() {
        n = -n;
        d = -d;
    }
    Ok((n.to_string(), d.to_string()))
}

/// What the statement says the program prints for these library results.
pub fn expected_stdout_lines(results: &[Res], exact: bool) -> Result<Vec<Expect>, String> {
    let mut out = Vec::new();
    for r in results {
        match r {
            Res::Ok { num, den, detail, .. } => {
                let d = detail.as_ref().ok_or("no rendering detail recorded")?;
                // "the value is one" is decided here from the value, not taken from the library
                let is_one = reduced(num, den)? == ("1".to_string(), "1".to_string());
                let mut line = if exact {
                    // reduced here, by the simulator, from whatever pair the library holds: lowest
                    // terms, the sign with the numerator
                    let (num, den) = reduced(num, den)?;
                    if den == "1" {
                        num
                    } else {
                        format!("{num}/{den}")
                    }
                } else {
                    d.display12.clone()
                };
                if d.has_numerator {
                    line.push(' ');
                }
                if d.unit_parts.is_empty() {
                    line.push_str(if is_one { &d.unit_singular } else { &d.unit_plural });
                } else {
                    // numerator parts, then '/' and the denominator parts; the unit name is pluralised
                    // only when it stands alone in the numerator and the value is not one
                    let num: Vec<&UnitPart> = d.unit_parts.iter().filter(|p| p.numerator).collect();
                    let den: Vec<&UnitPart> = d.unit_parts.iter().filter(|p| !p.numerator).collect();
                    let plural = num.len() == 1 && !is_one;
                    line.push_str(&num.iter().map(|p| if plural { p.plural.as_str() } else { p.singular.as_str() }).collect::<Vec<_>>().join("⋅"));
                    if !den.is_empty() {
                        line.push('/');
                        line.push_str(&den.iter().map(|p| p.singular.as_str()).collect::<Vec<_>>().join("⋅"));
                    }
                }
                out.push(Expect::Line(line));
            }
            Res::Err { msg, .. } => out.push(Expect::Diagnostic(msg.clone())),
        }
    }
    Ok(out)
}

#[derive(Debug, Clone, PartialEq, Eq)]
pub enum Expect {
    Line(String),
    Diagnostic(String),
}

/// Match stdout against the expectation; returns a description of the first mismatch.
/// Remove ANSI escape sequences (colour is presentation, not content).
pub fn strip_ansi(s: &str) -> String {
    let mut out = String::with_capacity(s.len());
    let mut it = s.chars().peekable();
    while let Some(c) = it.next() {
        if c == '\u{1b}' && it.peek() == Some(&'[') {
            it.next();
            for d in it.by_ref() {
                if ('@'..='~').contains(&d) {
                    break;
                }
            }
        } else {
            out.push(c);
        }
    }
    out
}

pub fn match_stdout(stdout: &str, expect: &[Expect]) -> Result<(), String> {
    let stdout = strip_ansi(stdout);
    let lines: Vec<&str> = stdout.split('\n').collect();
    // a trailing newline yields a last empty element
    let mut pos = 0;
    for (i, e) in expect.iter().enumerate() {
        match e {
            Expect::Line(l) => {
                let got = lines.get(pos).copied();
                if got != Some(l.as_str()) || pos + 1 >= lines.len() {
                    return Err(format!("result #{i}: expected line {l:?}, program printed {:?}", got.unwrap_or("<end of output>")));
                }
                pos += 1;
            }
            Expect::Diagnostic(msg) => {
                let want = format!("error: {msg}");
                let got = lines.get(pos).copied();
                if got != Some(want.as_str()) {
                    return Err(format!("result #{i}: expected a diagnostic starting {want:?}, program printed {:?}", got.unwrap_or("<end of output>")));
                }
                pos += 1;
                // the drawing of the diagnostic is not compared; it ends with an empty line
                loop {
                    match lines.get(pos) {
                        None => return Err(format!("result #{i}: diagnostic block not terminated")),
                        Some(l) if l.is_empty() => {
                            pos += 1;
                            break;
                        }
                        Some(l) => {
                            // block lines are indented or start with a line number gutter
                            let ok = l.starts_with(' ') || l.chars().next().map(|c| c.is_ascii_digit()).unwrap_or(false);
                            if !ok {
                                return Err(format!("result #{i}: unexpected line {l:?} inside the diagnostic for {msg:?}"));
                            }
                            pos += 1;
                        }
                    }
                }
            }
        }
    }
    // after the results: nothing, or the description trailer
    let rest: Vec<&str> = lines[pos..].iter().copied().filter(|l| !l.is_empty()).collect();
    if let Some(first) = rest.first() {
        if !first.starts_with("# Description of constants used") {
            return Err(format!("unexpected extra output after the {} results: {first:?}", expect.len()));
        }
    }
    Ok(())
}

/// C19: stdout of the real program == what the statement prescribes for the library's results.
pub fn judge_c19(ctx: &Ctx, h: &History, trace: &Trace) -> Vec<Violation> {
    let mut out = Vec::new();
    judge_health("C19", h, trace, &mut out);
    // library answers with rendering detail, by query text
    let mut lib: BTreeMap<String, &Answer> = BTreeMap::new();
    for so in &trace.steps {
        if let Some(c) = &so.child {
            for e in &c.events {
                if let Event::Answers { answers, .. } = e {
                    for a in answers {
                        if a.results.iter().all(|r| !matches!(r, Res::Ok { detail: None, .. })) {
                            lib.entry(a.q.clone()).or_insert(a);
                        }
                    }
                }
            }
        }
    }
    // If the library itself cannot open the database on this directory there is nothing for the
    // program to print faithfully; that is C15's business, not a printing defect.
    let library_opens = trace.steps.iter().filter_map(|s| s.child.as_ref()).flat_map(|c| builds(c)).any(|b| b.mode == "disk" && b.error.is_none());
    let mut seen: BTreeMap<(String, bool), (usize, String)> = BTreeMap::new();
    for (i, s) in h.steps.iter().enumerate() {
        let Step::Cli { query, exact, describe, env, .. } = s else { continue };
        if !library_opens {
            continue;
        }
        let Some(c) = trace.steps.get(i).and_then(|s| s.child.as_ref()) else { continue };
        if env.iter().any(|(k, _)| k.starts_with("ANYTHING_VERIF_")) {
            continue; // a deliberately disturbed run prints whatever it got to
        }
        let mut push = |clause: &str, detail: String| {
            out.push(Violation {
                property: "C19".into(),
                clause: clause.to_string(),
                step: i,
                detail,
                focus: vec![query.clone()],
                signature: format!("{clause}|prior={}", prior_class(ctx, trace, i)),
            })
        };
        if c.exit != (Exit::Code { code: 0 }) {
            push("C19.exit-status", format!("`any {query:?}` ended with {:?} (directory before: {}); stderr: {}", c.exit, prior_class(ctx, trace, i), c.stderr.lines().last().unwrap_or("")));
            continue;
        }
        // colour is presentation (it depends on TERM / NO_COLOR), not content
        let plain = strip_ansi(&c.stdout);
        let stdout_results = match plain.find("# Description of constants used") {
            Some(p) if *describe => plain[..p].to_string(),
            _ => plain.clone(),
        };
        match seen.get(&(query.clone(), *exact)) {
            None => {
                seen.insert((query.clone(), *exact), (i, stdout_results.clone()));
            }
            Some((pi, prev)) => {
                if *prev != stdout_results {
                    push("C19.output-depends-on-directory-state", format!("`any {query:?}` printed {:?} at step {pi} but {:?} at step {i}", prev, stdout_results));
                }
            }
        }
        if let Some(a) = lib.get(query) {
            if !*exact {
                for r in &a.results {
                    if let Res::Ok { num, den, detail: Some(d), .. } = r {
                        if let Err(why) = faithful_decimal(&d.display12, num, den) {
                            push("C19.decimal-not-the-value", format!("`any {query:?}`: the decimal printed for the result {num}/{den} is wrong: {why}; full stdout {:?}", c.stdout));
                            break;
                        }
                    }
                }
            }
            match expected_stdout_lines(&a.results, *exact) {
                Ok(exp) => {
                    if let Err(why) = match_stdout(&c.stdout, &exp) {
                        push("C19.stdout-vs-library", format!("`any{} {query:?}`: {why}; full stdout {:?}; library results [{}]", if *exact { " --exact" } else { "" }, c.stdout, fmt_res(&a.results)));
                    }
                }
                Err(_) => {}
            }
        }
    }
    out
}

pub fn judge(ctx: &Ctx, h: &History, trace: &Trace) -> Vec<Violation> {
    match h.property.as_str() {
        "C14" => judge_c14(ctx, h, trace),
        "C15" => judge_c15(ctx, h, trace),
        "C16" => judge_c16(ctx, h, trace),
        "C18" => judge_c18(ctx, h, trace),
        "C19" => {
            let mut v = judge_c19(ctx, h, trace);
            // C19 histories run over damaged directories: the CLI must still be served the shipped data
            v.retain(|x| x.property == "C19");
            v
        }
        _ => Vec::new(),
    }
}

// ---------------------------------------------------------------------------------------------
// canonical digests (determinism self-test, distinctness in evidence)

/// Everything observable about a trace except what is legitimately timing dependent.
pub fn canonical(trace: &Trace) -> String {
    let mut t = trace.clone();
    for s in t.steps.iter_mut() {
        // volatile: segment counts after background merges, leftover temp/lock files
        if let IndexInfo::Open { segments, .. } = &mut s.dir.index {
            *segments = 0;
        }
        s.dir.files.clear();
        if let Some(c) = s.child.as_mut() {
            c.stderr.clear();
        }
    }
    serde_json::to_string(&t).unwrap_or_default()
}

struct HashWriter(u64);
impl std::io::Write for HashWriter {
    fn write(&mut self, buf: &[u8]) -> std::io::Result<usize> {
        for b in buf {
            self.0 ^= *b as u64;
            self.0 = self.0.wrapping_mul(0x0000_0100_0000_01b3);
        }
        Ok(buf.len())
    }
    fn flush(&mut self) -> std::io::Result<()> {
        Ok(())
    }
}

/// Hash of the canonical trace, computed without materialising it.
pub fn digest(trace: &Trace) -> u64 {
    let mut w = HashWriter(0xcbf2_9ce4_8422_2325);
    for s in &trace.steps {
        let mut d = s.dir.clone();
        if let IndexInfo::Open { segments, .. } = &mut d.index {
            *segments = 0;
        }
        d.files.clear();
        let _ = serde_json::to_writer(&mut w, &d);
        if let Some(c) = &s.child {
            let _ = serde_json::to_writer(&mut w, &c.exit);
            let _ = serde_json::to_writer(&mut w, &c.events);
            let _ = serde_json::to_writer(&mut w, &c.stdout);
        }
    }
    w.0
}

pub fn history_hash(h: &History) -> u64 {
    let mut h2 = h.clone();
    h2.seed = 0;
    h2.label.clear();
    fnv1a(serde_json::to_string(&h2).unwrap_or_default().as_bytes())
}

//! Expanding an abstract worker plan into a concrete document -> worker target sequence.

use crate::rng::Rng;
use crate::script::Plan;

/// The concrete schedule of one build.
#[derive(Debug, Clone)]
pub struct Expanded {
    pub targets: Vec<usize>,
    pub release: Vec<usize>,
    pub sizes: Vec<usize>,
    /// false when the distinct-sizes repair did not converge
    pub distinct: bool,
}

/// Expand `plan` for `n` workers and `docs` documents.
///
/// Segment order in tantivy is by descending size with ties broken by a randomly seeded hash map,
/// so plans are repaired (deterministically) until all worker sizes are pairwise distinct.
pub fn expand(plan: &Plan, n: usize, docs: usize) -> Expanded {
    assert!(n >= 1);
    let mut targets = Vec::with_capacity(docs);
    for i in 0..docs.min(n) {
        targets.push(i);
    }
    let bursts: Vec<(usize, usize)> = plan
        .bursts
        .iter()
        .filter(|(_, l)| *l > 0)
        .map(|(w, l)| (*w as usize % n, *l as usize))
        .collect();
    if bursts.is_empty() {
        while targets.len() < docs {
            targets.push(0);
        }
    } else {
        let mut i = 0;
        'outer: loop {
            let (w, l) = bursts[i % bursts.len()];
            i += 1;
            for _ in 0..l {
                if targets.len() >= docs {
                    break 'outer;
                }
                targets.push(w);
            }
            if targets.len() >= docs {
                break;
            }
        }
    }

    let mut sizes = vec![0usize; n];
    for t in &targets {
        sizes[*t] += 1;
    }

    let mut distinct = true;
    if docs > n {
        let mut iterations = 0;
        loop {
            let mut pair = None;
            'find: for a in 0..n {
                for b in (a + 1)..n {
                    if sizes[a] == sizes[b] {
                        pair = Some((a, b));
                        break 'find;
                    }
                }
            }
            let Some((a, b)) = pair else { break };
            iterations += 1;
            if iterations > 4000 {
                distinct = false;
                break;
            }
            // donor: the largest worker (lowest index on ties)
            let mut donor = 0;
            for w in 0..n {
                if sizes[w] > sizes[donor] {
                    donor = w;
                }
            }
            let (from, to) = if donor != a && donor != b { (donor, b) } else { (a, b) };
            // re-target the last non-forced document of `from`
            let mut moved = false;
            for k in (n..targets.len()).rev() {
                if targets[k] == from {
                    targets[k] = to;
                    sizes[from] -= 1;
                    sizes[to] += 1;
                    moved = true;
                    break;
                }
            }
            if !moved {
                // `from` only owns its forced first document: take from the donor instead
                let mut moved2 = false;
                for k in (n..targets.len()).rev() {
                    if targets[k] == donor {
                        targets[k] = to;
                        sizes[donor] -= 1;
                        sizes[to] += 1;
                        moved2 = true;
                        break;
                    }
                }
                if !moved2 {
                    distinct = false;
                    break;
                }
            }
        }
    } else if n > 1 {
        distinct = false;
    }

    let mut release: Vec<usize> = Vec::new();
    for r in &plan.release {
        let r = *r as usize % n;
        if !release.contains(&r) {
            release.push(r);
        }
    }
    for w in 0..n {
        if !release.contains(&w) {
            release.push(w);
        }
    }

    Expanded { targets, release, sizes, distinct }
}

/// Draw a plan, swarm style: the shape of the plan itself is drawn first.
pub fn random_plan(rng: &mut Rng) -> Plan {
    let mut bursts = Vec::new();
    let style = rng.below(6);
    let workers = 16u8;
    match style {
        // degenerate: everything to one worker after the initial round
        0 => {
            bursts.push((rng.below(workers as usize) as u8, 1000));
        }
        // long bursts, few switches
        1 => {
            for _ in 0..rng.range(2, 6) {
                bursts.push((rng.below(workers as usize) as u8, rng.range(40, 400) as u16));
            }
        }
        // skewed weights, short bursts
        2 | 3 => {
            let weights: Vec<usize> = (0..workers).map(|_| rng.range(0, 10)).collect();
            let weights = if weights.iter().all(|w| *w == 0) { vec![1; workers as usize] } else { weights };
            let maxlen = *rng.pick(&[1usize, 2, 4, 8, 64]);
            for _ in 0..rng.range(20, 400) {
                bursts.push((rng.weighted(&weights) as u8, rng.range(1, maxlen) as u16));
            }
        }
        // uniform single documents (many switches)
        4 => {
            for _ in 0..rng.range(100, 900) {
                bursts.push((rng.below(workers as usize) as u8, 1));
            }
        }
        // mixture: long burst then noise
        _ => {
            bursts.push((rng.below(workers as usize) as u8, rng.range(100, 600) as u16));
            for _ in 0..rng.range(10, 200) {
                bursts.push((rng.below(workers as usize) as u8, rng.range(1, 16) as u16));
            }
        }
    }
    let mut release: Vec<u8> = (0..workers).collect();
    rng.shuffle(&mut release);
    // producers (only consulted when the code under test feeds the writer from several threads)
    let mut producers = Vec::new();
    match rng.below(4) {
        // each producer runs to its end, in a drawn order
        0 => {
            for _ in 0..8 {
                producers.push((rng.below(16) as u8, u16::MAX));
            }
        }
        // fine interleaving
        1 => {
            for _ in 0..rng.range(50, 600) {
                producers.push((rng.below(16) as u8, rng.range(1, 4) as u16));
            }
        }
        // a few long stretches
        2 => {
            for _ in 0..rng.range(2, 12) {
                producers.push((rng.below(16) as u8, rng.range(20, 500) as u16));
            }
        }
        // mixed
        _ => {
            for _ in 0..rng.range(5, 100) {
                let len = if rng.chance(1, 4) { rng.range(50, 400) } else { rng.range(1, 16) };
                producers.push((rng.below(16) as u8, len as u16));
            }
        }
    }
    Plan { bursts, release, producers }
}

#[cfg(test)]
mod tests {
    use super::*;

    #[test]
    fn distinct_sizes() {
        let mut rng = Rng::new(1);
        for _ in 0..2000 {
            let p = random_plan(&mut rng);
            for n in 1..=8 {
                let e = expand(&p, n, 878);
                assert!(e.distinct, "{p:?} n={n} {:?}", e.sizes);
                assert_eq!(e.targets.len(), 878);
                assert_eq!(e.sizes.iter().sum::<usize>(), 878);
                let mut s = e.sizes.clone();
                s.sort();
                s.dedup();
                assert_eq!(s.len(), n);
                for i in 0..n {
                    assert_eq!(e.targets[i], i);
                }
                assert_eq!(e.release.len(), n);
            }
        }
        let e = expand(&Plan::default(), 8, 878);
        assert!(e.distinct, "{:?}", e.sizes);
    }
}

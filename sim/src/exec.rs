//! Spawning the simulated process starts (`simnode`) and the real command line program (`any`)
//! with a fixed environment and a chosen CPU affinity mask.

use crate::dirstate::Paths;
use crate::script::{Event, Session};
use serde::{Deserialize, Serialize};
use std::io::Read;
use std::os::unix::process::ExitStatusExt;
use std::path::{Path, PathBuf};
use std::process::{Command, Stdio};
use std::time::{Duration, Instant};

/// Runs of the real program get one CPU each, handed out round robin (which one has no influence on
/// what the program does; all of them on the first CPU made sixteen jobs wait for one core).
fn next_cpu() -> usize {
    static NEXT: std::sync::atomic::AtomicUsize = std::sync::atomic::AtomicUsize::new(0);
    NEXT.fetch_add(1, std::sync::atomic::Ordering::Relaxed)
}

#[derive(Serialize, Deserialize, Clone, Debug, PartialEq, Eq)]
#[serde(tag = "exit", rename_all = "snake_case")]
pub enum Exit {
    Code { code: i32 },
    Signal { sig: i32 },
    /// harness watchdog fired (never a verdict)
    TimedOut,
    SpawnFailed { why: String },
}

#[derive(Serialize, Deserialize, Clone, Debug, PartialEq, Eq)]
pub struct ChildOut {
    pub exit: Exit,
    pub events: Vec<Event>,
    pub stdout: String,
    pub stderr: String,
}

impl ChildOut {
    pub fn ended(&self) -> bool {
        self.events.iter().any(|e| matches!(e, Event::End))
    }
    pub fn fault_fired(&self) -> Option<(String, String, usize)> {
        self.events.iter().find_map(|e| match e {
            Event::FaultFired { kind, point, k } => Some((kind.clone(), point.clone(), *k)),
            _ => None,
        })
    }
    pub fn harness_error(&self) -> Option<String> {
        // whatever a child does after an error or kill was injected into one of its system calls
        // (including the harness's own file accesses inside it) is the injection's doing
        if matches!(self.fault_fired(), Some((k, _, _)) if k.starts_with("sys-")) && !matches!(self.exit, Exit::SpawnFailed { .. }) {
            return None;
        }
        match &self.exit {
            Exit::TimedOut => return Some("child watchdog".into()),
            Exit::SpawnFailed { why } => return Some(format!("spawn failed: {why}")),
            Exit::Code { code: 2 } if self.events.iter().any(|e| matches!(e, Event::HarnessError { .. })) || self.events.is_empty() => {
                return Some(format!("simnode harness error: {}", self.stderr.lines().next().unwrap_or("")));
            }
            _ => {}
        }
        self.events.iter().find_map(|e| match e {
            Event::HarnessError { what } => Some(what.clone()),
            _ => None,
        })
    }
}

/// The wall-clock offset (seconds) a process start runs under, a function of its randomness seed:
/// two starts in three see the real time, the others a clock that is hours, weeks or decades off
/// in either direction.
pub fn clock_offset_of(rand: u64) -> i64 {
    const OFFS: [i64; 10] = [3600, -3600, 86_400 * 40, -86_400 * 40, 86_400 * 3650, -86_400 * 3650, 1, -1, 86_400 * 365 * 60, -86_400 * 365 * 30];
    let r = crate::rng::derive(rand, "clock", 0);
    if r % 3 != 0 {
        0
    } else {
        OFFS[((r / 3) % OFFS.len() as u64) as usize]
    }
}

/// CPUs this process may run on.
pub fn allowed_cpus() -> Vec<usize> {
    unsafe {
        let mut set: libc::cpu_set_t = std::mem::zeroed();
        if libc::sched_getaffinity(0, std::mem::size_of::<libc::cpu_set_t>(), &mut set) != 0 {
            return vec![0];
        }
        (0..libc::CPU_SETSIZE as usize).filter(|i| libc::CPU_ISSET(*i, &set)).collect()
    }
}

#[derive(Clone, Debug)]
pub struct Launcher {
    pub bin_dir: PathBuf,
    pub allowed: Vec<usize>,
    pub child_timeout: Duration,
}

impl Launcher {
    fn command(&self, bin: &str, xdg: &Paths, cwd: &Path, cpus: usize, rotate: usize) -> Command {
        self.command_path(&self.bin_dir.join(bin), xdg, cwd, cpus, rotate)
    }

    fn command_path(&self, path: &Path, xdg: &Paths, cwd: &Path, cpus: usize, rotate: usize) -> Command {
        let mut cmd = Command::new(path);
        cmd.env_clear()
            .env("XDG_DATA_HOME", &xdg.root)
            .env("HOME", cwd)
            .env("TERM", "dumb")
            .env("NO_COLOR", "1")
            .env("PATH", "/usr/bin:/bin")
            .current_dir(cwd)
            .stdin(Stdio::null())
            .stdout(Stdio::piped())
            .stderr(Stdio::piped());
        let _ = (cpus, rotate);
        cmd
    }

    /// The random-source seam: when the shim library has been built, load it into the child and
    /// give it the seed from which everything the child draws with getrandom(2) is derived.
    pub fn shim(&self) -> Option<PathBuf> {
        let p = self.bin_dir.join("libverifrand.so");
        if p.is_file() && std::env::var("VERIF_NO_SHIM").is_err() {
            Some(p)
        } else {
            None
        }
    }

    fn seed_randomness(&self, cmd: &mut Command, rand: u64) {
        if let Some(p) = self.shim() {
            cmd.env("LD_PRELOAD", p).env("VERIF_RANDOM_SEED", rand.to_string()).env("VERIF_CLOCK_OFFSET", clock_offset_of(rand).to_string());
        }
    }

    /// Spawn `cmd` so that the child starts with an affinity mask of `cpus` CPUs. The mask is put on
    /// the calling thread for the duration of the spawn (a child inherits the mask of the thread that
    /// creates it); this avoids a `pre_exec` hook, which would force a full fork() of the simulator.
    fn spawn_with_affinity(&self, cmd: &mut Command, cpus: usize, rotate: usize) -> std::io::Result<std::process::Child> {
        let n = self.allowed.len();
        let want = cpus.clamp(1, n);
        unsafe {
            let mut old: libc::cpu_set_t = std::mem::zeroed();
            let have_old = libc::sched_getaffinity(0, std::mem::size_of::<libc::cpu_set_t>(), &mut old) == 0;
            let mut set: libc::cpu_set_t = std::mem::zeroed();
            for i in 0..want {
                libc::CPU_SET(self.allowed[(rotate + i) % n], &mut set);
            }
            libc::sched_setaffinity(0, std::mem::size_of::<libc::cpu_set_t>(), &set);
            let r = cmd.spawn();
            if have_old {
                libc::sched_setaffinity(0, std::mem::size_of::<libc::cpu_set_t>(), &old);
            }
            r
        }
    }

    fn wait(&self, child: std::process::Child) -> (Exit, String, String) {
        self.wait_with(child, None)
    }

    /// `master`: the controlling side of a pseudo terminal the child's standard output is connected to
    /// (instead of a pipe); what the child writes there is returned as its standard output.
    fn wait_with(&self, mut child: std::process::Child, master: Option<std::fs::File>) -> (Exit, String, String) {
        // drain pipes on threads so a chatty child cannot block
        let so = child.stdout.take();
        let mut se = child.stderr.take().unwrap();
        let t1 = std::thread::spawn(move || {
            let mut b = Vec::new();
            if let Some(mut so) = so {
                let _ = so.read_to_end(&mut b);
            } else if let Some(mut m) = master {
                // reading the master side ends with EIO once the last slave descriptor is closed
                let mut buf = [0u8; 4096];
                loop {
                    match m.read(&mut buf) {
                        Ok(0) | Err(_) => break,
                        Ok(n) => b.extend_from_slice(&buf[..n]),
                    }
                }
            }
            String::from_utf8_lossy(&b).to_string()
        });
        let t2 = std::thread::spawn(move || {
            let mut b = Vec::new();
            let _ = se.read_to_end(&mut b);
            String::from_utf8_lossy(&b).to_string()
        });
        let start = Instant::now();
        let mut delay = Duration::from_micros(500);
        let exit = loop {
            match child.try_wait() {
                Ok(Some(st)) => {
                    break match (st.code(), st.signal()) {
                        (Some(c), _) => Exit::Code { code: c },
                        (None, Some(s)) => Exit::Signal { sig: s },
                        _ => Exit::Code { code: -1 },
                    }
                }
                Ok(None) => {
                    if start.elapsed() > self.child_timeout {
                        let _ = child.kill();
                        let _ = child.wait();
                        break Exit::TimedOut;
                    }
                    std::thread::sleep(delay);
                    if delay < Duration::from_millis(5) {
                        delay *= 2;
                    }
                }
                Err(e) => break Exit::SpawnFailed { why: e.to_string() },
            }
        };
        (exit, t1.join().unwrap_or_default(), t2.join().unwrap_or_default())
    }

    /// One simulated process start. `work` is a scratch directory for the script and log files.
    pub fn simnode(&self, xdg: &Paths, work: &Path, tag: &str, session: &Session, rotate: usize) -> ChildOut {
        let script = work.join(format!("{tag}.script.json"));
        let log = work.join(format!("{tag}.log.jsonl"));
        if let Err(e) = std::fs::write(&script, serde_json::to_vec(session).unwrap()) {
            return ChildOut { exit: Exit::SpawnFailed { why: e.to_string() }, events: vec![], stdout: String::new(), stderr: String::new() };
        }
        let _ = std::fs::remove_file(&log);
        let sys = session.faults.iter().find_map(|f| match f {
            crate::script::Fault::Syscall { call, when, errno } => Some((call.clone(), *when, errno.clone())),
            _ => None,
        });
        let strace_out = work.join(format!("{tag}.strace"));
        let mut cmd = match &sys {
            None => self.command("simnode", xdg, work, session.cpus, rotate),
            Some((call, when, errno)) => {
                let mut c = self.command_path(Path::new("/usr/bin/strace"), xdg, work, session.cpus, rotate);
                let inject = match errno {
                    None => format!("inject={call}:signal=SIGKILL:when={when}"),
                    Some(e) => format!("inject={call}:error={e}:when={when}"),
                };
                // the seccomp filter makes tracing three times cheaper, but with it strace does not
                // deliver injected signals (measured: the kill never fires), so only errnos use it
                if errno.is_some() {
                    c.arg("--seccomp-bpf");
                }
                c.arg("-f").arg("-qq").arg("-o").arg(&strace_out).arg("-e").arg(format!("trace={call}")).arg("-e").arg(inject).arg(self.bin_dir.join("simnode"));
                c
            }
        };
        cmd.arg(&script).arg(&log);
        for (k, v) in &session.env {
            if v == "<unset>" {
                cmd.env_remove(k);
            } else {
                cmd.env(k, v);
            }
        }
        self.seed_randomness(&mut cmd, session.rand);
        let child = match self.spawn_with_affinity(&mut cmd, session.cpus, rotate) {
            Ok(c) => c,
            Err(e) => return ChildOut { exit: Exit::SpawnFailed { why: e.to_string() }, events: vec![], stdout: String::new(), stderr: String::new() },
        };
        let (exit, stdout, stderr) = self.wait(child);
        let mut events = Vec::new();
        if let Ok(text) = std::fs::read_to_string(&log) {
            for line in text.lines() {
                match serde_json::from_str::<Event>(line) {
                    Ok(e) => events.push(e),
                    Err(_) => {
                        // a torn last line after a kill is expected; anything else is reported by `ended()`
                    }
                }
            }
        }
        let _ = std::fs::remove_file(&script);
        let _ = std::fs::remove_file(&log);
        if let Some((call, when, errno)) = &sys {
            // the injector is outside the child: record whether it fired from strace's own log
            let text = std::fs::read_to_string(&strace_out).unwrap_or_default();
            let _ = std::fs::remove_file(&strace_out);
            if text.is_empty() && events.is_empty() {
                // the tracer could not run the child at all
                events.push(Event::HarnessError { what: format!("strace could not run the child: {}", stderr.lines().next().unwrap_or("")) });
            }
            // a child that died before writing its first event was hit during program start-up
            let injected = text.contains("(INJECTED)") || text.contains("+++ killed by SIGKILL +++") || (!text.is_empty() && events.is_empty());
            if injected {
                // an interrupted call (EINTR) is not an error: a start that met one is judged like any other
                let kind = match errno.as_deref() {
                    Some("EINTR") => "sys-eintr",
                    Some(_) => "sys-error",
                    None => "sys-kill",
                };
                events.push(Event::FaultFired { kind: kind.into(), point: format!("{call}{}", errno.as_ref().map(|e| format!(":{e}")).unwrap_or_default()), k: *when });
            }
        }
        ChildOut { exit, events, stdout, stderr }
    }

}

/// Open a pseudo terminal: (master, slave).
fn open_pty() -> Option<(std::fs::File, std::fs::File)> {
    use std::os::unix::io::FromRawFd;
    unsafe {
        let m = libc::posix_openpt(libc::O_RDWR | libc::O_NOCTTY | libc::O_CLOEXEC);
        if m < 0 {
            return None;
        }
        if libc::grantpt(m) != 0 || libc::unlockpt(m) != 0 {
            libc::close(m);
            return None;
        }
        let mut name = [0 as libc::c_char; 128];
        if libc::ptsname_r(m, name.as_mut_ptr(), name.len()) != 0 {
            libc::close(m);
            return None;
        }
        let s = libc::open(name.as_ptr(), libc::O_RDWR | libc::O_NOCTTY | libc::O_CLOEXEC);
        if s < 0 {
            libc::close(m);
            return None;
        }
        Some((std::fs::File::from_raw_fd(m), std::fs::File::from_raw_fd(s)))
    }
}

impl Launcher {
    /// The real `any` binary; with `tty` its standard output is a pseudo terminal, as when a person
    /// runs it in a terminal window (what it writes there is returned as its standard output,
    /// carriage returns removed).
    pub fn any_on(&self, xdg: &Paths, work: &Path, args: &[String], extra_env: &[(String, String)], rand: u64, tty: bool) -> ChildOut {
        if !tty {
            return self.any(xdg, work, args, extra_env, None, rand);
        }
        let Some((master, slave)) = open_pty() else {
            return ChildOut { exit: Exit::SpawnFailed { why: "no pseudo terminal available".into() }, events: vec![], stdout: String::new(), stderr: String::new() };
        };
        let child = {
            let mut cmd = self.command("any", xdg, work, 1, 0);
            cmd.args(args);
            for (k, v) in extra_env {
                if v == "<unset>" {
                    cmd.env_remove(k);
                } else {
                    cmd.env(k, v);
                }
            }
            self.seed_randomness(&mut cmd, rand);
            cmd.stdout(Stdio::from(slave));
            match self.spawn_with_affinity(&mut cmd, 1, next_cpu()) {
                Ok(c) => c,
                Err(e) => return ChildOut { exit: Exit::SpawnFailed { why: e.to_string() }, events: vec![], stdout: String::new(), stderr: String::new() },
            }
            // `cmd` (and with it this process's copy of the slave side) is dropped here
        };
        let (exit, stdout, stderr) = self.wait_with(child, Some(master));
        ChildOut { exit, events: vec![Event::FaultFired { kind: "tty".into(), point: "stdout".into(), k: 0 }], stdout: stdout.replace('\r', ""), stderr }
    }
}

impl Launcher {
    /// The real `any` binary; with `inject` = (system call, occurrence, errno) it runs under the ptrace
    /// injector, which makes that one call fail with that errno.
    pub fn any(&self, xdg: &Paths, work: &Path, args: &[String], extra_env: &[(String, String)], inject: Option<&(String, usize, String)>, rand: u64) -> ChildOut {
        let strace_out = work.join("any.strace");
        let mut cmd = match inject {
            None => self.command("any", xdg, work, 1, 0),
            Some((call, when, errno)) => {
                let mut c = self.command_path(Path::new("/usr/bin/strace"), xdg, work, 1, 0);
                c.arg("--seccomp-bpf").arg("-f").arg("-qq").arg("-o").arg(&strace_out).arg("-e").arg(format!("trace={call}")).arg("-e").arg(format!("inject={call}:error={errno}:when={when}")).arg(self.bin_dir.join("any"));
                c
            }
        };
        cmd.args(args);
        for (k, v) in extra_env {
            if v == "<unset>" {
                cmd.env_remove(k);
            } else {
                cmd.env(k, v);
            }
        }
        self.seed_randomness(&mut cmd, rand);
        let child = match self.spawn_with_affinity(&mut cmd, 1, next_cpu()) {
            Ok(c) => c,
            Err(e) => return ChildOut { exit: Exit::SpawnFailed { why: e.to_string() }, events: vec![], stdout: String::new(), stderr: String::new() },
        };
        let (exit, stdout, stderr) = self.wait(child);
        let mut events = vec![];
        if let Some((call, when, errno)) = inject {
            let text = std::fs::read_to_string(&strace_out).unwrap_or_default();
            let _ = std::fs::remove_file(&strace_out);
            if text.contains("(INJECTED)") {
                events.push(Event::FaultFired { kind: if errno == "EINTR" { "sys-eintr(cli)".into() } else { "sys-error(cli)".into() }, point: format!("{call}:{errno}"), k: *when });
            }
        }
        ChildOut { exit, events, stdout, stderr }
    }
}

//! The simulated "disk": one private data directory. Fabricating the listed prior states,
//! damaging it between runs, and inspecting it from the outside (the durability invariant is
//! evaluated here, by the simulator, not by the code under test).

use crate::shipped::{canon, Shipped};
use serde::{Deserialize, Serialize};
use std::collections::BTreeMap;
use std::fs;
use std::path::{Path, PathBuf};
use tantivy::schema::{IndexRecordOption, Schema, TextFieldIndexing, TextOptions, Value, STORED};
use tantivy::tokenizer::{LowerCaser, NgramTokenizer, TextAnalyzer};
use tantivy::{Document, Index, ReloadPolicy};

#[derive(Clone, Debug)]
pub struct Paths {
    /// the value of XDG_DATA_HOME
    pub root: PathBuf,
}

impl Paths {
    pub fn new(root: impl Into<PathBuf>) -> Self {
        Paths { root: root.into() }
    }
    pub fn data(&self) -> PathBuf {
        self.root.join("facts")
    }
    pub fn meta(&self) -> PathBuf {
        self.data().join("meta.json")
    }
    pub fn index(&self) -> PathBuf {
        self.data().join("index")
    }
}

#[derive(Serialize, Deserialize, Clone, Debug, PartialEq, Eq)]
#[serde(tag = "meta", rename_all = "snake_case")]
pub enum MetaSpec {
    Absent,
    /// what a clean start of this very build writes
    Current,
    /// the first `bytes` bytes of the current text (a torn write)
    CurrentPrefix { bytes: usize },
    /// another tool version, the current hash
    OtherVersion,
    /// another tool version and another hash
    OtherVersionOtherHash,
    /// a neighbouring version (patch number + 1) and another hash
    NearVersion,
    /// this version, a hash for other data
    OtherHash,
    /// literal text (garbage kinds)
    Text { text: String },
    /// literal bytes, hex-encoded (garbage that is not valid UTF-8)
    Hex { hex: String },
}

#[derive(Serialize, Deserialize, Clone, Copy, Debug, PartialEq, Eq)]
#[serde(rename_all = "snake_case")]
pub enum IndexSpec {
    Absent,
    /// a complete index of the shipped data (copied from a clean reference start)
    Complete,
    /// same schema, other documents (some shipped facts, fake facts)
    Foreign,
    /// what another version of the tool might have left: same field names, but the name field
    /// indexed with another tokenizer and not stored, other documents
    ForeignSchema,
    /// same schema, exactly as many documents as the shipped data with the same words, but most
    /// payloads are those of other data (what a same-named data refresh would have indexed)
    ForeignSameShape,
}

#[derive(Serialize, Deserialize, Clone, Debug, PartialEq, Eq)]
pub struct StateSpec {
    /// false: not even the data directory exists
    pub data_dir: bool,
    #[serde(flatten)]
    pub meta: MetaSpec,
    pub index: IndexSpec,
}

#[derive(Serialize, Deserialize, Clone, Debug, PartialEq, Eq)]
#[serde(tag = "damage", rename_all = "snake_case")]
pub enum Damage {
    DeleteMeta,
    TruncateMeta { bytes: usize },
    GarbleMeta { text: String },
    DeleteIndexDir,
    DeleteDataDir,
    /// the facts changed since the index was written (meta keeps the version, other hash)
    StaleHash,
    /// the index was written by another version
    StaleVersion,
}

/// What a clean start of the build under test leaves behind, learned once per invocation.
#[derive(Clone, Debug)]
pub struct Reference {
    pub meta_text: String,
    pub version: String,
    pub hash: String,
    pub gold_index: PathBuf,
    pub foreign_index: PathBuf,
    pub foreign_schema_index: PathBuf,
    pub foreign_same_shape_index: PathBuf,
}

#[derive(Deserialize)]
struct Meta {
    #[serde(default)]
    version: Option<String>,
    #[serde(default)]
    database_hash: Option<String>,
}

#[derive(Serialize, Deserialize, Clone, Debug, PartialEq, Eq)]
#[serde(tag = "c", rename_all = "snake_case")]
pub enum MetaInfo {
    Absent,
    Unreadable,
    Parsed { version: Option<String>, hash: Option<String> },
}

#[derive(Serialize, Deserialize, Clone, Debug, PartialEq, Eq)]
#[serde(tag = "c", rename_all = "snake_case")]
pub enum IndexInfo {
    Absent,
    Unopenable { why: String },
    Open {
        docs: usize,
        segments: usize,
        /// stored payloads == shipped constants as multisets
        shipped: bool,
        missing: usize,
        extra: usize,
        undecodable: usize,
    },
}

#[derive(Serialize, Deserialize, Clone, Debug, PartialEq, Eq)]
pub struct DirInfo {
    pub data_dir: bool,
    pub meta: MetaInfo,
    pub meta_text: Option<String>,
    pub index: IndexInfo,
    /// file classes and counts of the index directory (never names)
    pub files: BTreeMap<String, usize>,
}

impl DirInfo {
    /// Does the metadata claim that the index reflects this build's data? True when it reads as the
    /// (version, hash) a clean start of this build records, or is byte for byte what a clean start
    /// writes (so that a change of the file's format does not blind or falsely trip the invariant).
    pub fn meta_is_current(&self, r: &Reference) -> bool {
        if !r.version.is_empty() && matches!(&self.meta, MetaInfo::Parsed { version: Some(v), hash: Some(h) } if *v == r.version && *h == r.hash) {
            return true;
        }
        !r.meta_text.is_empty() && self.meta_text.as_deref() == Some(r.meta_text.as_str())
    }

    /// short class string, without volatile details
    pub fn class(&self, r: &Reference) -> String {
        let m = match &self.meta {
            MetaInfo::Absent => "absent".to_string(),
            MetaInfo::Unreadable => "unreadable".to_string(),
            MetaInfo::Parsed { version, hash } => {
                let v = match version {
                    None => "none",
                    Some(v) if *v == r.version => "this",
                    _ => "other",
                };
                let h = match hash {
                    None => "none",
                    Some(h) if *h == r.hash => "this",
                    _ => "other",
                };
                format!("v={v},h={h}")
            }
        };
        let i = match &self.index {
            IndexInfo::Absent => "absent".to_string(),
            IndexInfo::Unopenable { .. } => "unopenable".to_string(),
            IndexInfo::Open { docs, shipped, .. } => {
                if *shipped {
                    "shipped".to_string()
                } else if *docs == 0 {
                    "empty".to_string()
                } else {
                    "other".to_string()
                }
            }
        };
        format!("meta[{m}] index[{i}]")
    }
}

pub fn parse_meta(text: &str) -> MetaInfo {
    match serde_json::from_str::<Meta>(text) {
        Ok(m) => MetaInfo::Parsed { version: m.version, hash: m.database_hash },
        Err(_) => MetaInfo::Unreadable,
    }
}

fn file_class(name: &str) -> String {
    if name == "meta.json" {
        return "meta.json".into();
    }
    if name.starts_with('.') {
        // .managed.json, .tantivy-writer.lock, .tantivy-meta.lock, temp files
        if name.starts_with(".tmp") {
            return ".tmp".into();
        }
        return name.to_string();
    }
    match name.rsplit_once('.') {
        Some((_, ext)) => format!("*.{ext}"),
        None => "other".into(),
    }
}

pub fn inspect(p: &Paths, shipped: &Shipped) -> DirInfo {
    let data_dir = p.data().is_dir();
    let (meta, meta_text) = match fs::read(p.meta()) {
        Ok(bytes) => {
            let text = String::from_utf8_lossy(&bytes).to_string();
            (parse_meta(&text), Some(text))
        }
        Err(_) => (MetaInfo::Absent, None),
    };
    let mut files = BTreeMap::new();
    if let Ok(rd) = fs::read_dir(p.index()) {
        for e in rd.flatten() {
            *files.entry(file_class(&e.file_name().to_string_lossy())).or_insert(0) += 1;
        }
    }
    let index = if !p.index().is_dir() {
        IndexInfo::Absent
    } else {
        inspect_index(&p.index(), shipped)
    };
    DirInfo { data_dir, meta, meta_text, index, files }
}

fn inspect_index(dir: &Path, shipped: &Shipped) -> IndexInfo {
    let index = match Index::open_in_dir(dir) {
        Ok(i) => i,
        Err(e) => return IndexInfo::Unopenable { why: first_line(&e.to_string()) },
    };
    let Some(fd) = index.schema().get_field("data") else {
        return IndexInfo::Unopenable { why: "no data field".into() };
    };
    let reader: tantivy::IndexReader = match index.reader_builder().reload_policy(ReloadPolicy::Manual).try_into() {
        Ok(r) => r,
        Err(e) => return IndexInfo::Unopenable { why: first_line(&e.to_string()) },
    };
    let searcher = reader.searcher();
    let mut want: BTreeMap<Vec<u8>, isize> = BTreeMap::new();
    for c in &shipped.constants {
        *want.entry(canon(c)).or_insert(0) += 1;
    }
    let mut docs = 0;
    let mut undecodable = 0;
    let mut extra = 0;
    for sr in searcher.segment_readers() {
        let store = match sr.get_store_reader(1) {
            Ok(s) => s,
            Err(e) => return IndexInfo::Unopenable { why: first_line(&e.to_string()) },
        };
        for d in store.iter(sr.alive_bitset()) {
            let d: Document = match d {
                Ok(d) => d,
                Err(e) => return IndexInfo::Unopenable { why: first_line(&e.to_string()) },
            };
            docs += 1;
            match d.get_first(fd) {
                Some(Value::Bytes(b)) => match serde_cbor::from_slice::<anything::Constant>(b) {
                    Ok(c) => match want.get_mut(&canon(&c)) {
                        Some(n) if *n > 0 => *n -= 1,
                        _ => extra += 1,
                    },
                    Err(_) => undecodable += 1,
                },
                _ => undecodable += 1,
            }
        }
    }
    let missing: isize = want.values().filter(|n| **n > 0).sum();
    IndexInfo::Open {
        docs,
        segments: searcher.segment_readers().len(),
        shipped: missing == 0 && extra == 0 && undecodable == 0,
        missing: missing as usize,
        extra,
        undecodable,
    }
}

fn first_line(s: &str) -> String {
    let l = s.lines().next().unwrap_or("");
    // strip paths (they contain scratch directory names)
    let l: String = l.split_whitespace().filter(|w| !w.contains('/')).collect::<Vec<_>>().join(" ");
    l.chars().take(120).collect()
}

pub fn copy_dir(from: &Path, to: &Path) -> std::io::Result<()> {
    fs::create_dir_all(to)?;
    for e in fs::read_dir(from)? {
        let e = e?;
        let ty = e.file_type()?;
        let dst = to.join(e.file_name());
        if ty.is_dir() {
            copy_dir(&e.path(), &dst)?;
        } else {
            fs::copy(e.path(), dst)?;
        }
    }
    Ok(())
}

pub fn wipe(p: &Paths) -> std::io::Result<()> {
    // empty the root rather than removing it: it may be a mount point (full-disk histories)
    if p.root.is_dir() {
        for e in fs::read_dir(&p.root)? {
            let e = e?;
            if e.file_type()?.is_dir() {
                fs::remove_dir_all(e.path())?;
            } else {
                fs::remove_file(e.path())?;
            }
        }
        return Ok(());
    }
    fs::create_dir_all(&p.root)
}

pub const OTHER_VERSION: &str = "0.0.1-verif-other";
pub const OTHER_HASH: &str = "0123456789abcdef0123456789abcdef";

/// The version with its last numeric component incremented ("0.1.5" -> "0.1.6").
pub fn near_version(v: &str) -> String {
    let mut parts: Vec<String> = v.split('.').map(|p| p.to_string()).collect();
    if let Some(last) = parts.last_mut() {
        match last.parse::<u64>() {
            Ok(n) => *last = (n + 1).to_string(),
            Err(_) => last.push('1'),
        }
    }
    parts.join(".")
}

pub fn meta_text(spec: &MetaSpec, r: &Reference) -> Option<String> {
    let esc = |s: &str| serde_json::to_string(s).unwrap();
    match spec {
        MetaSpec::Absent => None,
        MetaSpec::Current => Some(r.meta_text.clone()),
        MetaSpec::CurrentPrefix { bytes } => {
            let b = r.meta_text.as_bytes();
            Some(String::from_utf8_lossy(&b[..(*bytes).min(b.len())]).to_string())
        }
        MetaSpec::OtherVersion => Some(format!("{{\"version\":{},\"database_hash\":{}}}", esc(OTHER_VERSION), esc(&r.hash))),
        MetaSpec::OtherVersionOtherHash => Some(format!("{{\"version\":{},\"database_hash\":{}}}", esc(OTHER_VERSION), esc(OTHER_HASH))),
        MetaSpec::NearVersion => Some(format!("{{\"version\":{},\"database_hash\":{}}}", esc(&near_version(&r.version)), esc(OTHER_HASH))),
        MetaSpec::OtherHash => Some(format!("{{\"version\":{},\"database_hash\":{}}}", esc(&r.version), esc(OTHER_HASH))),
        MetaSpec::Text { text } => Some(text.clone()),
        MetaSpec::Hex { .. } => None,
    }
}

/// The bytes `meta.json` is given by a state (None = the file is absent).
pub fn meta_bytes(spec: &MetaSpec, r: &Reference) -> Option<Vec<u8>> {
    match spec {
        MetaSpec::Hex { hex } => Some((0..hex.len() / 2).filter_map(|i| u8::from_str_radix(&hex[2 * i..2 * i + 2], 16).ok()).collect()),
        other => meta_text(other, r).map(|t| t.into_bytes()),
    }
}

pub fn fabricate(p: &Paths, spec: &StateSpec, r: &Reference) -> std::io::Result<()> {
    wipe(p)?;
    if !spec.data_dir {
        return Ok(());
    }
    fs::create_dir_all(p.data())?;
    if let Some(t) = meta_bytes(&spec.meta, r) {
        fs::write(p.meta(), t)?;
    }
    match spec.index {
        IndexSpec::Absent => {}
        IndexSpec::Complete => copy_dir(&r.gold_index, &p.index())?,
        IndexSpec::Foreign => copy_dir(&r.foreign_index, &p.index())?,
        IndexSpec::ForeignSchema => copy_dir(&r.foreign_schema_index, &p.index())?,
        IndexSpec::ForeignSameShape => copy_dir(&r.foreign_same_shape_index, &p.index())?,
    }
    Ok(())
}

pub fn damage(p: &Paths, d: &Damage, r: &Reference) -> std::io::Result<()> {
    match d {
        Damage::DeleteMeta => {
            if p.meta().exists() {
                fs::remove_file(p.meta())?;
            }
        }
        Damage::TruncateMeta { bytes } => {
            if let Ok(b) = fs::read(p.meta()) {
                fs::write(p.meta(), &b[..(*bytes).min(b.len())])?;
            }
        }
        Damage::GarbleMeta { text } => {
            if p.data().is_dir() {
                fs::write(p.meta(), text)?;
            }
        }
        Damage::DeleteIndexDir => {
            if p.index().exists() {
                fs::remove_dir_all(p.index())?;
            }
        }
        Damage::DeleteDataDir => {
            if p.data().exists() {
                fs::remove_dir_all(p.data())?;
            }
        }
        Damage::StaleHash => {
            if p.data().is_dir() {
                fs::write(p.meta(), meta_text(&MetaSpec::OtherHash, r).unwrap())?;
            }
        }
        Damage::StaleVersion => {
            if p.data().is_dir() {
                fs::write(p.meta(), meta_text(&MetaSpec::OtherVersion, r).unwrap())?;
            }
        }
    }
    Ok(())
}

/// The fake facts of the foreign index: phrases that must be *missing* (or answered from the
/// shipped data) once the tool has recovered.
pub const FAKE_PHRASES: &[&str] = &["zzzfake quux", "population world", "verifonly"];

fn tool_schema(other_version: bool) -> (Schema, tantivy::schema::Field, tantivy::schema::Field) {
    let text_field_indexing = TextFieldIndexing::default()
        .set_tokenizer(if other_version { "default" } else { "ngram" })
        .set_index_option(if other_version { IndexRecordOption::Basic } else { IndexRecordOption::WithFreqsAndPositions });
    let text_options = TextOptions::default().set_indexing_options(text_field_indexing);
    let text_options = if other_version { text_options } else { text_options.set_stored() };
    let mut sb = Schema::builder();
    let fd = sb.add_bytes_field("data", STORED);
    let fname = sb.add_text_field("name", text_options);
    (sb.build(), fd, fname)
}

#[derive(Serialize)]
struct FakeConstant {
    source: Option<u64>,
    tokens: Vec<String>,
    description: String,
    value: anything::Rational,
    unit: anything::Compound,
}

/// Build the "foreign" index: the tool's schema, but other documents — a few shipped constants
/// (most are missing) plus fake facts, one of which shadows a real phrase.
pub fn build_foreign(dir: &Path, shipped: &Shipped, other_version_schema: bool) -> Result<(), String> {
    let (schema, fd, fname) = tool_schema(other_version_schema);
    fs::create_dir_all(dir).map_err(|e| e.to_string())?;
    let index = Index::create_in_dir(dir, schema).map_err(|e| e.to_string())?;
    index
        .tokenizers()
        .register("ngram", TextAnalyzer::from(NgramTokenizer::new(1, 7, true)).filter(LowerCaser));
    let mut w = index.writer_with_num_threads(1, 50_000_000).map_err(|e| e.to_string())?;
    for (toks, v) in [
        (vec!["zzzfake", "quux"], 42u32),
        (vec!["population", "world"], 7u32),
        (vec!["verifonly"], 9u32),
    ] {
        let c = FakeConstant {
            source: None,
            tokens: toks.iter().map(|s| s.to_string()).collect(),
            description: format!("FAKE {}", toks.join(" ")),
            value: anything::Rational::new(v, 1u32),
            unit: anything::Compound::empty(),
        };
        let mut d = Document::default();
        d.add_bytes(fd, serde_cbor::to_vec(&c).map_err(|e| e.to_string())?);
        for t in &c.tokens {
            d.add_text(fname, t);
        }
        w.add_document(d).map_err(|e| e.to_string())?;
    }
    for c in shipped.constants.iter().step_by(97) {
        let mut d = Document::default();
        d.add_bytes(fd, canon(c));
        for t in &c.tokens {
            d.add_text(fname, t.as_ref());
        }
        w.add_document(d).map_err(|e| e.to_string())?;
    }
    w.commit().map_err(|e| e.to_string())?;
    drop(w);
    // the writer lock files are left by tantivy as empty files; keep whatever it leaves
    Ok(())
}

/// Build the "same shape" foreign index: one document per shipped constant, in shipping order and
/// with the shipped words, so that every coarse measure (schema, number of documents, terms)
/// equals that of a complete index — but four of five payloads carry another description (the
/// data of "another edition"), and the first three documents are the fake facts.
pub fn build_foreign_same_shape(dir: &Path, shipped: &Shipped) -> Result<(), String> {
    let (schema, fd, fname) = tool_schema(false);
    fs::create_dir_all(dir).map_err(|e| e.to_string())?;
    let index = Index::create_in_dir(dir, schema).map_err(|e| e.to_string())?;
    index
        .tokenizers()
        .register("ngram", TextAnalyzer::from(NgramTokenizer::new(1, 7, true)).filter(LowerCaser));
    let mut w = index.writer_with_num_threads(1, 50_000_000).map_err(|e| e.to_string())?;
    let fakes: [(Vec<&str>, u32); 3] = [(vec!["zzzfake", "quux"], 42), (vec!["population", "world"], 7), (vec!["verifonly"], 9)];
    let total = shipped.docs();
    for i in 0..total {
        let mut d = Document::default();
        if i < fakes.len() {
            let (toks, v) = &fakes[i];
            let c = FakeConstant {
                source: None,
                tokens: toks.iter().map(|s| s.to_string()).collect(),
                description: format!("FAKE {}", toks.join(" ")),
                value: anything::Rational::new(*v, 1u32),
                unit: anything::Compound::empty(),
            };
            d.add_bytes(fd, serde_cbor::to_vec(&c).map_err(|e| e.to_string())?);
            for t in &c.tokens {
                d.add_text(fname, t);
            }
        } else if let Some(c) = shipped.constants.get(i) {
            if i % 5 == 0 {
                d.add_bytes(fd, canon(c));
            } else {
                let mut c = c.clone();
                c.description = format!("OTHER EDITION {}", c.description).into();
                d.add_bytes(fd, canon(&c));
            }
            for t in &c.tokens {
                d.add_text(fname, t.as_ref());
            }
        } else {
            // a constant the library under test refuses to decode: keep its words, fake payload
            let r = &shipped.refused[i - shipped.constants.len()];
            let c = FakeConstant { source: None, tokens: r.tokens.clone(), description: "OTHER EDITION".into(), value: anything::Rational::new(1u32, 1u32), unit: anything::Compound::empty() };
            d.add_bytes(fd, serde_cbor::to_vec(&c).map_err(|e| e.to_string())?);
            for t in &c.tokens {
                d.add_text(fname, t);
            }
        }
        w.add_document(d).map_err(|e| e.to_string())?;
    }
    w.commit().map_err(|e| e.to_string())?;
    drop(w);
    Ok(())
}

//! The shipped data as the harness sees it: decoded straight from the repository's `db/*.bin.gz`
//! files, independently of what the code under test chooses to index.

use anything::syntax::parser::{Parser, Syntax};
use anything::Constant;
use std::collections::{BTreeMap, BTreeSet};
use std::path::Path;

/// A shipped constant that the library of the tree under test refuses to decode (on the unchanged
/// tree there is none): the harness still knows its words, so that it is asked for like any other.
pub struct Refused {
    pub tokens: Vec<String>,
    pub why: String,
}

pub struct Shipped {
    pub constants: Vec<Constant>,
    /// the same constants as plain CBOR values, exactly as shipped (same order as `constants`)
    pub raw: Vec<serde_cbor::Value>,
    pub refused: Vec<Refused>,
    /// per asset: (name, number of constants)
    pub assets: Vec<(String, usize)>,
}

impl Shipped {
    /// number of documents a complete index holds
    pub fn docs(&self) -> usize {
        self.constants.len() + self.refused.len()
    }
    /// the words of every shipped constant: the decodable ones first, then the refused ones
    pub fn all_tokens(&self) -> Vec<Vec<String>> {
        self.constants.iter().map(|c| c.tokens.iter().map(|t| t.to_string()).collect()).chain(self.refused.iter().map(|r| r.tokens.clone())).collect()
    }
}

pub fn load(repo: &str) -> Result<Shipped, String> {
    use serde_cbor::Value as V;
    let dir = Path::new(repo).join("db");
    let mut names: Vec<String> = std::fs::read_dir(&dir)
        .map_err(|e| format!("{}: {e}", dir.display()))?
        .filter_map(|e| e.ok())
        .map(|e| e.file_name().to_string_lossy().to_string())
        .filter(|n| n.ends_with(".bin.gz") && n != "sources.bin.gz")
        .collect();
    names.sort();
    let mut constants = Vec::new();
    let mut raw = Vec::new();
    let mut refused = Vec::new();
    let mut assets = Vec::new();
    for n in names {
        let bytes = std::fs::read(dir.join(&n)).map_err(|e| format!("{n}: {e}"))?;
        // decoded as plain CBOR first, constant by constant, so that a library that has become
        // stricter about one constant does not take the harness down with it
        let doc: V = serde_cbor::from_reader(flate2::read::GzDecoder::new(&bytes[..])).map_err(|e| format!("{n}: {e}"))?;
        let list = match &doc {
            V::Map(m) => match m.get(&V::Text("constants".into())) {
                Some(V::Array(a)) => a.clone(),
                _ => Vec::new(),
            },
            _ => return Err(format!("{n}: not a CBOR map")),
        };
        assets.push((n.clone(), list.len()));
        for v in list {
            match serde_cbor::value::from_value::<Constant>(v.clone()) {
                Ok(c) => {
                    constants.push(c);
                    raw.push(v.clone());
                }
                Err(e) => {
                    let tokens = match &v {
                        V::Map(m) => match m.get(&V::Text("tokens".into())) {
                            Some(V::Array(t)) => t.iter().filter_map(|x| if let V::Text(s) = x { Some(s.clone()) } else { None }).collect(),
                            _ => Vec::new(),
                        },
                        _ => Vec::new(),
                    };
                    refused.push(Refused { tokens, why: format!("{n}: {e}") });
                }
            }
        }
    }
    Ok(Shipped { constants, raw, refused, assets })
}

/// Canonical bytes of a constant (for multiset comparison of stored payloads).
pub fn canon(c: &Constant) -> Vec<u8> {
    serde_cbor::to_vec(c).expect("constant encodes")
}

/// Does `text` parse to exactly one root node that is a WORD or SENTENCE spanning `inner`?
/// This is the real parser's decision on whether a phrase can be typed.
pub fn is_phrase(text: &str, inner: &str) -> bool {
    let Ok(tree) = Parser::new(text).parse_root() else { return false };
    let mut nodes = tree.children().skip_tokens();
    let Some(node) = nodes.next() else { return false };
    if nodes.next().is_some() {
        return false;
    }
    if !matches!(node.value(), Syntax::WORD | Syntax::SENTENCE) {
        return false;
    }
    text.get(node.span().range()) == Some(inner)
}

/// The ways the words can be typed: plain and inside the `{ }` escape.
pub fn typed_forms(words: &[&str]) -> Vec<String> {
    if words.is_empty() || words.iter().any(|w| w.is_empty()) {
        return Vec::new();
    }
    let joined = words.join(" ");
    let mut out = Vec::new();
    if is_phrase(&joined, &joined) {
        out.push(joined.clone());
    }
    let braced = format!("{{{joined}}}");
    if is_phrase(&braced, &joined) {
        out.push(braced);
    }
    out
}

pub fn permutations(n: usize, limit: usize) -> Vec<Vec<usize>> {
    let mut perms: Vec<Vec<usize>> = vec![vec![]];
    for _ in 0..n {
        let mut nx = vec![];
        for p in &perms {
            for i in 0..n {
                if !p.contains(&i) {
                    let mut q = p.clone();
                    q.push(i);
                    nx.push(q);
                }
            }
        }
        perms = nx;
        if perms.len() > limit {
            perms.truncate(limit);
        }
    }
    perms
}

/// The query set of C14: own words of every typeable constant, every distinct token alone, and
/// every proper prefix of length 1..=3 of every token. Returned sorted and deduplicated, together
/// with the indices of "must keep" phrases (exact ties and the most frequent tokens).
pub fn c14_queries(s: &Shipped) -> (Vec<String>, Vec<usize>) {
    let mut set: BTreeSet<String> = BTreeSet::new();
    let mut own: BTreeMap<String, usize> = BTreeMap::new();
    let mut freq: BTreeMap<String, usize> = BTreeMap::new();
    for toks in &s.all_tokens() {
        let words: Vec<&str> = toks.iter().map(|t| t.as_str()).collect();
        if let Some(f) = typed_forms(&words).into_iter().next() {
            *own.entry(f.clone()).or_default() += 1;
            set.insert(f);
        }
        for t in &words {
            *freq.entry(t.to_string()).or_default() += 1;
        }
    }
    for t in freq.keys() {
        if let Some(f) = typed_forms(&[t.as_str()]).into_iter().next() {
            set.insert(f);
        }
        let chars: Vec<char> = t.chars().collect();
        for l in 1..=3 {
            if l < chars.len() {
                let p: String = chars[..l].iter().collect();
                if let Some(f) = typed_forms(&[p.as_str()]).into_iter().next() {
                    set.insert(f);
                }
            }
        }
    }
    // phrases whose words belong to *different* facts (no fact carries both): which fact wins is
    // decided by the ranking statistics of the whole index, so anything that changes the index
    // contents without changing any single fact (duplicated documents, a lost asset) shows here
    let tokens: Vec<&String> = freq.keys().collect();
    let mut cross: Vec<String> = Vec::new();
    if tokens.len() > 4 {
        let n = tokens.len();
        for i in 0..n {
            for j in [(i * 7 + 13) % n, (i * 31 + 5) % n] {
                if i == j {
                    continue;
                }
                let (a, b) = (tokens[i].as_str(), tokens[j].as_str());
                if s.constants.iter().any(|c| c.tokens.iter().any(|t| t.as_ref() == a) && c.tokens.iter().any(|t| t.as_ref() == b)) {
                    continue;
                }
                if let Some(f) = typed_forms(&[a, b]).into_iter().next() {
                    if set.insert(f.clone()) {
                        cross.push(f);
                    }
                }
            }
        }
    }
    // two-word queries made of prefixes of two words that start alike but belong to facts of
    // *different* asset files ("size sier": size of the universe / Sierra Leone): where such a query
    // ties, the winner is decided by how the index lays the assets out (segments, their order)
    let mut asset_of: Vec<usize> = Vec::new();
    for (ai, (_, n)) in s.assets.iter().enumerate() {
        asset_of.extend(std::iter::repeat(ai).take(*n));
    }
    let mut tok_assets: BTreeMap<String, BTreeSet<usize>> = BTreeMap::new();
    for (ci, toks) in s.all_tokens().iter().enumerate() {
        let a = asset_of.get(ci).copied().unwrap_or(0);
        for t in toks {
            tok_assets.entry(t.to_lowercase()).or_default().insert(a);
        }
    }
    let smallest = s.assets.iter().enumerate().min_by_key(|(_, (_, n))| *n).map(|(i, _)| i).unwrap_or(0);
    let mut prefix_pairs: Vec<(String, bool)> = Vec::new();
    let toks: Vec<(&String, &BTreeSet<usize>)> = tok_assets.iter().collect();
    // two passes: first the pairs that involve the smallest asset (all of them), then the others (capped)
    for pass in 0..2 {
      for (i, (a, aa)) in toks.iter().enumerate() {
        for (b, ba) in toks.iter().skip(i + 1) {
            if (aa.contains(&smallest) != ba.contains(&smallest)) != (pass == 0) {
                continue;
            }
            let (ac, bc): (Vec<char>, Vec<char>) = (a.chars().collect(), b.chars().collect());
            let cp = ac.iter().zip(bc.iter()).take_while(|(x, y)| x == y).count();
            if cp < 2 || aa.iter().all(|x| ba.contains(x)) && ba.iter().all(|x| aa.contains(x)) {
                continue;
            }
            let small = aa.contains(&smallest) != ba.contains(&smallest);
            for la in (cp + 1)..=ac.len().min(7) {
                for lb in (cp + 1)..=bc.len().min(7) {
                    let (pa, pb): (String, String) = (ac[..la].iter().collect(), bc[..lb].iter().collect());
                    for q in [format!("{pa} {pb}"), format!("{pb} {pa}")] {
                        if let Some(f) = typed_forms(&q.split(' ').collect::<Vec<_>>()).into_iter().next() {
                            if (pass == 0 || prefix_pairs.len() < 6000) && set.insert(f.clone()) {
                                prefix_pairs.push((f, small));
                            }
                        }
                    }
                }
            }
        }
      }
    }
    // a fact word next to a word that occurs in no fact at all (what the tool answers then is its
    // business, but it is the same business in every session)
    let mut strangers: Vec<String> = Vec::new();
    for (i, t) in freq.keys().enumerate() {
        for w in ["atlantis", "zzzqx", "krypton"] {
            if i % 3 == 0 || w == "atlantis" {
                for q in [format!("{t} {w}"), format!("{w} {t}")] {
                    if let Some(f) = typed_forms(&q.split(' ').collect::<Vec<_>>()).into_iter().next() {
                        if set.insert(f.clone()) {
                            strangers.push(f);
                        }
                    }
                }
            }
        }
    }
    // one-word prefixes that words of facts from *different* asset files share ("pe": Perdita / Peru):
    // the commonest kind of tie across assets; always asked
    let mut shared: Vec<String> = Vec::new();
    {
        let mut by_prefix: BTreeMap<String, BTreeSet<usize>> = BTreeMap::new();
        for (t, assets) in &tok_assets {
            let cs: Vec<char> = t.chars().collect();
            for l in 1..=cs.len().min(7) {
                by_prefix.entry(cs[..l].iter().collect()).or_default().extend(assets.iter().copied());
            }
        }
        for (p, assets) in by_prefix {
            if assets.len() >= 2 {
                if let Some(f) = typed_forms(&[p.as_str()]).into_iter().next() {
                    set.insert(f.clone());
                    shared.push(f);
                }
            }
        }
    }
    // fact words in other spellings - a suffix or prefix glued on (possessive, plural, hyphen, dot,
    // digit, accent), capitals - alone and next to another word of the same fact. What the tool makes
    // of such a word is decided by the analysis of query text, which every session must do alike.
    let mut spelled: Vec<String> = Vec::new();
    {
        let fact_words: Vec<(String, Option<String>)> = {
            let mut seen = BTreeSet::new();
            let mut v = Vec::new();
            for toks in &s.all_tokens() {
                for (i, t) in toks.iter().enumerate() {
                    if seen.insert(t.clone()) {
                        let other = toks.iter().enumerate().find(|(j, _)| *j != i).map(|(_, o)| o.clone());
                        v.push((t.clone(), other));
                    }
                }
            }
            v
        };
        let short: Vec<&(String, Option<String>)> = fact_words.iter().filter(|(w, _)| (2..=5).contains(&w.chars().count())).collect();
        let long: Vec<&(String, Option<String>)> = fact_words.iter().filter(|(w, _)| w.chars().count() > 5).collect();
        let pick = |v: &Vec<&(String, Option<String>)>, n: usize| -> Vec<(String, Option<String>)> {
            let step = (v.len() / n.max(1)).max(1);
            v.iter().step_by(step).take(n).map(|x| (*x).clone()).collect()
        };
        for (w, other) in pick(&short, 90).into_iter().chain(pick(&long, 50)) {
            let cap = {
                let mut c = w.chars();
                c.next().map(|f| f.to_uppercase().collect::<String>() + c.as_str()).unwrap_or_default()
            };
            for v in [format!("{w}'s"), format!("{w}s"), format!("{w}'"), format!("{w}."), format!("{w}-"), format!("{w}2"), format!("{w}é"), format!("'{w}"), format!("{w}_"), w.to_uppercase(), cap.clone(), format!("{cap}'s")] {
                let mut qs = vec![v.clone()];
                if let Some(o) = &other {
                    qs.push(format!("{v} {o}"));
                    qs.push(format!("{o} {v}"));
                }
                for q in qs {
                    if let Some(f) = typed_forms(&q.split(' ').collect::<Vec<_>>()).into_iter().next() {
                        if set.insert(f.clone()) {
                            spelled.push(f);
                        }
                    }
                }
            }
        }
    }
    let all: Vec<String> = set.into_iter().collect();
    let mut keep = Vec::new();
    for f in spelled.iter().step_by(5) {
        if let Ok(i) = all.binary_search(f) {
            keep.push(i);
        }
    }
    for f in shared.iter().take(400) {
        if let Ok(i) = all.binary_search(f) {
            keep.push(i);
        }
    }
    for f in strangers.iter().step_by(9) {
        if let Ok(i) = all.binary_search(f) {
            keep.push(i);
        }
    }
    // those that involve the smallest asset are always asked (at most 700), also in the quick tier
    for (f, _) in prefix_pairs.iter().filter(|(_, small)| *small).take(700) {
        if let Ok(i) = all.binary_search(f) {
            keep.push(i);
        }
    }
    // every twelfth cross-fact phrase is always asked, also in the quick tier
    for f in cross.iter().step_by(12) {
        if let Ok(i) = all.binary_search(f) {
            keep.push(i);
        }
    }
    // exact ties: the same own words carried by several constants
    for (p, n) in &own {
        if *n > 1 {
            if let Ok(i) = all.binary_search(p) {
                keep.push(i);
            }
        }
    }
    // the 40 most frequent tokens
    let mut fv: Vec<(&String, &usize)> = freq.iter().collect();
    fv.sort_by(|a, b| b.1.cmp(a.1).then(a.0.cmp(b.0)));
    for (t, _) in fv.into_iter().take(40) {
        if let Ok(i) = all.binary_search(t) {
            keep.push(i);
        }
    }
    keep.sort();
    keep.dedup();
    (all, keep)
}

/// One-word prefixes (at most `max_len` letters) shared by words of facts from different asset files,
/// as typed forms; at most `cap` of them, the shortest first.
pub fn shared_prefixes(s: &Shipped, max_len: usize, cap: usize) -> Vec<String> {
    let mut asset_of: Vec<usize> = Vec::new();
    for (ai, (_, n)) in s.assets.iter().enumerate() {
        asset_of.extend(std::iter::repeat(ai).take(*n));
    }
    let mut by_prefix: BTreeMap<String, BTreeSet<usize>> = BTreeMap::new();
    for (ci, toks) in s.all_tokens().iter().enumerate() {
        let a = asset_of.get(ci).copied().unwrap_or(0);
        for t in toks {
            let cs: Vec<char> = t.to_lowercase().chars().collect();
            for l in 1..=cs.len().min(max_len) {
                by_prefix.entry(cs[..l].iter().collect()).or_default().insert(a);
            }
        }
    }
    let mut out: Vec<String> = Vec::new();
    for (p, assets) in by_prefix {
        if assets.len() >= 2 {
            if let Some(f) = typed_forms(&[p.as_str()]).into_iter().next() {
                out.push(f);
            }
        }
    }
    out.sort_by_key(|p| (p.chars().count(), p.clone()));
    // spread over the alphabet rather than the first `cap`
    if out.len() > cap {
        let step = out.len() as f64 / cap as f64;
        out = (0..cap).map(|i| out[(i as f64 * step) as usize].clone()).collect();
    }
    out
}

/// A plain CBOR value without its null map entries (an absent optional field and a null one are the
/// same constant), hashed over its canonical encoding.
pub fn norm_hash(v: &serde_cbor::Value) -> String {
    use serde_cbor::Value as V;
    fn norm(v: &V) -> V {
        match v {
            V::Map(m) => V::Map(m.iter().filter(|(_, x)| !matches!(x, V::Null)).map(|(k, x)| (norm(k), norm(x))).collect()),
            V::Array(a) => V::Array(a.iter().map(norm).collect()),
            other => other.clone(),
        }
    }
    let bytes = serde_cbor::to_vec(&norm(v)).unwrap_or_default();
    format!("{:016x}", crate::rng::fnv1a(&bytes))
}
